"""Stateless, deviation-bounded, exhaustive explorer over choice sequences, plus a
fork-based parallel map for plain scenario-space enumeration."""
import os, sys, time, multiprocessing as mp, traceback


class ReplayDivergence(Exception):
    pass


class Chooser:
    """Answers every choice point. prefix is replayed; afterwards the default (0)."""

    def __init__(self, prefix=()):
        self.prefix = list(prefix)
        self.ns = []
        self.choices = []
        self.labels = []

    def choose(self, n, label=None):
        assert n >= 1
        i = len(self.choices)
        c = self.prefix[i] if i < len(self.prefix) else 0
        if c >= n:
            raise ReplayDivergence(f"choice {i}: prefix asks {c} of {n} ({label})")
        self.ns.append(n)
        self.choices.append(c)
        self.labels.append(label)
        return c

    def deviations(self):
        return sum(1 for c in self.choices if c)


def children(ch, plen, bound):
    """Alternatives to push after an execution that replayed a prefix of length plen."""
    out = []
    dev = sum(1 for c in ch.choices[:plen] if c)
    for i in range(plen, len(ch.choices)):
        # choices[plen:i] are all 0 by construction
        if dev + 1 > bound:
            break
        for alt in range(1, ch.ns[i]):
            out.append(ch.choices[:i] + [alt])
    return out


def explore_subtree(run, prefix, bound, on_exec, cap=None):
    """Depth-first exploration of all executions extending prefix with at most
    `bound` non-default choices in total. run(ch) executes the driver; on_exec(ch, obs)
    is called once per execution. Returns (#executions, capped?)."""
    stack = [list(prefix)]
    n = 0
    while stack:
        p = stack.pop()
        ch = Chooser(p)
        obs = run(ch)
        if len(ch.choices) < len(p):
            raise ReplayDivergence(f"prefix {p} longer than execution ({len(ch.choices)})")
        on_exec(ch, obs)
        n += 1
        if cap is not None and n >= cap:
            return n, True
        stack.extend(reversed(children(ch, len(p), bound)))
    return n, False


NPROC = int(os.environ.get("VERIF_JOBS", "0")) or min(16, os.cpu_count() or 1)

_WORK = None


def _call(i):
    fn, items = _WORK
    try:
        return fn(items[i])
    except BaseException:
        return ("__HARNESS_ERROR__", traceback.format_exc())


def pmap(fn, items, chunks=None, progress=None):
    """Apply fn to every item using fork workers; fn's closure and items are inherited
    (not pickled). Results come back in order. A worker exception is a harness error."""
    global _WORK
    items = list(items)
    if not items:
        return []
    if NPROC <= 1 or len(items) == 1:
        out = [fn(x) for x in items]
        return out
    _WORK = (fn, items)
    ctx = mp.get_context("fork")
    cs = chunks or max(1, len(items) // (NPROC * 8))
    with ctx.Pool(NPROC) as pool:
        out = pool.map(_call, range(len(items)), chunksize=cs)
    _WORK = None
    for r in out:
        if isinstance(r, tuple) and len(r) == 2 and r[0] == "__HARNESS_ERROR__":
            print("HARNESS-ERROR worker raised:\n" + r[1])
            sys.exit(2)
    return out


def chunked(seq, n):
    seq = list(seq)
    k = max(1, (len(seq) + n - 1) // n)
    return [seq[i:i + k] for i in range(0, len(seq), k)]
