"""Shared glue: run simulation families for one property and fold the tagged mismatches
of every execution into the report."""
import json
from .report import Violation, Report
from .explorer import pmap, chunked, Chooser, NPROC
from .families import f1, f2, f3, f5, f6

RULE = {
    "F1": ("F1: every command sequence with <=k deviations from a default policy (menu: odd sizes, oversubscribing batches, wrong pools, "
           "dependency/lifecycle violations, suspension of any container ever seen) on the real Executor in lock-step with the reference executor"),
    "F2": ("F2: suspension sweep - one multi-operator container (+neighbour), a suspension of any container ever seen may be requested at every tick "
           "(<=2 requests per execution), allocations 0.5 GB..whole pool, tick rates where the write-out is 1,2,12,32 ticks; default policy re-assigns returned work"),
    "F3": ("F3: memory mixes - all ordered sets of 2..4 containers from (offset, allocation, profile) alphabets in one 40 GB pool, with and without overcommit"),
}
NONTRIVIAL = "non-trivial = distinct (scenario, outcome-counter vector, exception site) classes; states = distinct reference-model states reached"


def fold(rep, pid, family, sc, tot):
    rep.cov["evaluations"] += tot["execs"]
    rep.cov["traces_validated_against_impl"] += tot["execs"] - tot.get("ambiguous", 0)
    rep.cov["transitions"] += tot["transitions"]
    name = sc["name"] if sc else family
    rep.add_states({(name, h) for h in tot["fps"]})
    rep.add_nontrivial({(name, o) for o in tot["outcomes"]})
    if tot.get("capped"):
        rep.cap(f"{family}:{name} execution cap")
    for tags, kind, site, detail, choices in tot["mm"]:
        if pid in tags:
            if isinstance(choices, dict) and "item" in choices:   # F5: (algo, cfg, combo, tps, kw)
                algo, cfg, combo, tps, kw = choices["item"]
                rep.add_violations([Violation(family, kind, detail, f5.build(algo, cfg, combo, tps, **kw), [], site=site, family="F5")])
            elif isinstance(choices, dict) and "f6item" in choices:
                rep.add_violations([Violation(family, kind, detail, f6.build(choices["f6item"]), [], site=site, family="F6")])
            elif isinstance(choices, dict) and "drift" in choices:
                rep.add_violations([Violation(family, kind, detail, choices, [], site=site, family="F3d")])
            elif isinstance(choices, dict):   # F3: the case itself
                rep.add_violations([Violation(family, kind, detail, choices, [], site=site, family=family)])
            else:
                rep.add_violations([Violation(family, kind, detail, sc, choices, site=site, family=family)])
    d = rep.cov["parts"].setdefault(family, dict(scenarios=0, executions=0, skipped_float_boundary=0))
    d["scenarios"] += 1 if sc else 0
    d["executions"] += tot["execs"]
    d["skipped_float_boundary"] += tot.get("ambiguous", 0)
    d["max_choice_points"] = max(d.get("max_choice_points", 0), tot["maxdepth"])
    for k, v in tot["stats"].items():
        d["stat_" + k] = d.get("stat_" + k, 0) + v


def run_f1(rep, pid, tier, bound=None, names=None):
    bound = bound if bound is not None else (2 if tier == "quick" else 3)
    for sc in f1.scenarios(tier):
        if names and not any(sc["name"].startswith(n) for n in names):
            continue
        tot = f1.explore(sc, bound)
        fold(rep, pid, "F1", sc, tot)
        if len(rep.cov["samples"]) < 1:
            rep.sample(dict(family="F1", scenario=sc, example_choice_sequence=[0, 0, 5]))
    rep.cov["bounds"]["F1_deviations"] = bound


def run_f2(rep, pid, tier, bound=2):
    scs = f2.scenarios(tier)
    if pid != "C10" and tier == "quick":
        # the full sweep (all tick rates, all neighbours) belongs to C10; the other properties use the dyadic part
        scs = [sc for sc in scs if sc["tps"] <= 2]
    res = pmap(lambda sc: f2.explore(sc, bound), scs)
    for sc, tot in zip(scs, res):
        fold(rep, pid, "F2", sc, tot)
    rep.cov["bounds"]["F2_deviations"] = bound
    rep.sample(dict(family="F2", scenario=scs[len(scs) // 2], example_choice_sequence=[0, 2]))
    ms = f2.mass_scenarios(tier) + f2.straddle_scenarios(tier)
    for sc, s_ in zip(ms, pmap(f2.mass_work, ms, chunks=1)):
        tot = f1.new_acc()
        f1.merge(tot, s_)
        fold(rep, pid, "F2-mass", dict(name=sc["name"], mass=True, tier=tier), tot)


def run_f3(rep, pid, tier, seed=0):
    cs = f3.cases(tier, seed)
    res = pmap(f3.work, [(c, (False, True)) for c in chunked(cs, NPROC * 8)], chunks=1)
    for tot in res:
        fold(rep, pid, "F3", None, tot)
    rep.cov["parts"]["F3"]["container_sets"] = len(cs)
    dc = f3.drift_cases(tier) + f3.crowd_cases(tier)
    res = pmap(f3.drift_work, chunked(dc, NPROC * 4), chunks=1)
    for tot in res:
        fold(rep, pid, "F3-drift", None, tot)
    rep.cov["parts"]["F3-drift"]["container_sets"] = len(dc)
    rep.sample(dict(family="F3", containers=cs[len(cs) // 2], overcommit=True))


RULE["F5"] = ("F5: the real shipped scheduler + real executor in run_simulator's phase order over the full product of a scenario alphabet "
              "(arrival-sorted lists of 1..4 pipelines x priorities x DAG shapes x operator profiles x pool configurations x container mode x tick rate); "
              "per-round policy predicates over decisions and ground-truth state, executor-side model comparison stays on")


def run_f5(rep, pid, tier, kinds, seed=0, sub=None):
    for kind in kinds:
        sp = f5.space(kind, tier, seed)
        if sub:
            sp = sp[::sub]
        res = pmap(f5.work, chunked(sp, NPROC * 16), chunks=1)
        for tot in res:
            fold(rep, pid, "F5:" + kind, None, tot)
        rep.cov["parts"]["F5:" + kind]["scenarios"] = len(sp)
        if sp:
            algo, cfg, combo, tps, kw = sp[len(sp) // 2]
            rep.sample(dict(family="F5", scenario=f5.build(algo, cfg, combo, tps, **kw)))


RULE["F6"] = ("F6: the REAL run_simulator on every workload/config of a small alphabet (0-3 scripted pipelines incl. none / after-the-end arrivals, "
              "all priority assignments, durations 0.4/1/8/20 ticks, 7 scheduler configurations); returned SimulatorStats compared with an independent recount of recorded "
              "arrivals, decisions, results and the transition log; uncontended chains must finish in exactly the ticks their operators need")


def run_f6(rep, pid, tier, kinds=("recount", "uncontended", "susp", "dags", "bulk")):
    for kind in kinds:
        sp = f6.space(kind, tier)
        res = pmap(f6.work, chunked(sp, NPROC * 16), chunks=1)
        for tot in res:
            fold(rep, pid, "F6:" + kind, None, tot)
        rep.cov["parts"]["F6:" + kind]["scenarios"] = len(sp)
        if sp:
            rep.sample(dict(family="F6", scenario=f6.build(sp[len(sp) // 2])))


def sim_main(pid, tier, seed, families, rule_extra=""):
    rep = Report(pid, tier, seed)
    rep.cov["rule"] = "; ".join(dict.fromkeys(RULE[f.split(":")[0]] for f in families)) + "; " + NONTRIVIAL + rule_extra
    for f in families:
        if f.startswith("F5:"):
            run_f5(rep, pid, tier, f[3:].split(","), seed)
        elif f.startswith("F6"):
            run_f6(rep, pid, tier)
        else:
            {"F1": run_f1, "F2": run_f2, "F3": run_f3}[f](rep, pid, tier)
    return rep


def replay(rec):
    fam = rec.get("family", "F1")
    pid = rec["property"]
    if fam == "F6":
        sc = rec["scenario"]
        tr = []
        w, r, stats, exc = f6.run(sc)
        print("scenario:", json.dumps(sc, default=str))
        print("stats:", None if stats is None else stats.to_dict())
        print("exception:", repr(exc))
    elif fam == "F5":
        sc = rec["scenario"]
        tr = []
        w = f5.run_checked(sc, tr)
    elif fam == "F3d":
        c = rec["scenario"]["drift"]
        sc = f3.crowd_scenario(tuple(c)) if c[0] == "crowd" else f3.drift_scenario((c[0], tuple(c[1]), tuple(c[2])), rec["scenario"]["overcommit"])
        tr = []
        w = f3.run(sc, tr)
    elif fam == "F3":
        sc = f3.scenario([tuple(c) for c in rec["scenario"]["conts"]], rec["scenario"]["overcommit"])
        tr = []
        w = f3.run(sc, tr)
    elif fam == "F2-mass" or (isinstance(rec.get("scenario"), dict) and rec["scenario"].get("mass")):
        sc = next(x for x in f2.mass_scenarios(rec["scenario"].get("tier", "quick")) + f2.straddle_scenarios("quick") if x["name"] == rec["scenario"]["name"])
        tr = []
        w = f2.mass_run(sc)
    else:
        sc = rec["scenario"]
        tr = []
        w = (f1 if fam == "F1" else f2).run(sc, Chooser(rec["choices"]), tr)
    for t in tr:
        print(json.dumps(t, default=str))
    hit = [m for m in w.mm if pid in m.tags and m.kind == rec.get("kind", m.kind)]
    for m in w.mm:
        print(("REPRODUCED " if m in hit else "other      ") + repr(m))
    return 1 if hit else 0
