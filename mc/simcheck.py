"""Shared glue: run simulation families for one property and fold the tagged mismatches
of every execution into the report."""
import json
from .report import Violation
from .families import f1


def fold(rep, pid, family, sc, tot, replay_kind):
    rep.cov["evaluations"] += tot["execs"]
    rep.cov["traces_validated_against_impl"] += tot["execs"]
    rep.cov["transitions"] += tot["transitions"]
    rep.add_states({(sc["name"], h) for h in tot["fps"]})
    rep.add_nontrivial({(sc["name"], o) for o in tot["outcomes"]})
    if tot.get("capped"):
        rep.cap(f"{family}:{sc['name']} execution cap")
    if tot.get("ambiguous"):
        rep.harness_notes.append(f"{family}:{sc['name']}: {tot['ambiguous']} executions left the exact-arithmetic alphabet (model comparison skipped there)")
    for tags, kind, site, detail, choices in tot["mm"]:
        if pid in tags:
            rep.add_violations([Violation(f"{family}", kind, detail, sc, choices, site=site, family=replay_kind)])
    rep.part(family, scenarios=1, executions=tot["execs"], max_choice_points=tot["maxdepth"], **{("stat_" + k): v for k, v in tot["stats"].items()})


def run_f1(rep, pid, tier, bound=None, names=None):
    bound = bound if bound is not None else (2 if tier == "quick" else 3)
    for sc in f1.scenarios(tier):
        if names and not any(sc["name"].startswith(n) for n in names):
            continue
        tot = f1.explore(sc, bound)
        fold(rep, pid, "F1", sc, tot, "F1")
    rep.cov["bounds"]["F1_deviations"] = bound


def replay_f1(rec):
    from .explorer import Chooser
    sc = rec["scenario"]
    tr = []
    w = f1.run(sc, Chooser(rec["choices"]), tr)
    for t in tr:
        print(json.dumps(t, default=str))
    hit = [m for m in w.mm if rec["property"] in m.tags and m.kind == rec.get("kind", m.kind)]
    for m in w.mm:
        print(("REPRODUCED " if m in hit else "other      ") + repr(m))
    return 1 if hit else 0

RULE_F1 = ("F1: every command sequence with <=k deviations from a default policy (menu: odd sizes, oversubscribing batches, wrong pools, "
           "dependency/lifecycle violations, suspension of any container ever seen) on the real Executor, lock-step with the reference executor; "
           "non-trivial = distinct (scenario, outcome-counter vector, exception site) classes")
