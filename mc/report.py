"""Result accumulation, evidence writing, known-findings matching, exit protocol."""
import json, os, sys, time, hashlib
from .boot import VERIF as _VERIF
VERIF = os.environ.get("VERIF_OUT", _VERIF)   # scratch output dir for mutant experiments

LEVEL = "model_checking"


def jhash(x):
    return hashlib.sha1(json.dumps(x, sort_keys=True, default=str).encode()).hexdigest()[:12]


class Violation:
    """One failing case. sig = (monitor, kind, site) identifies the failure mode;
    scenario + choices make it replayable."""

    def __init__(self, monitor, kind, detail, scenario=None, choices=None, site="", family=""):
        self.monitor = monitor
        self.kind = kind
        self.detail = detail
        self.scenario = scenario
        self.choices = choices
        self.site = site
        self.family = family

    def sig(self):
        return (self.monitor, self.kind, self.site)

    def to_json(self):
        return dict(monitor=self.monitor, kind=self.kind, site=self.site, detail=self.detail,
                    family=self.family, scenario=self.scenario, choices=self.choices)

    def size(self):
        return len(json.dumps(self.scenario, default=str)) + 10 * len(self.choices or [])


def load_known():
    p = os.path.join(_VERIF, "known_findings.json")
    if not os.path.exists(p):
        return []
    with open(p) as f:
        return json.load(f).get("findings", [])


class Report:
    def __init__(self, pid, tier, seed):
        self.pid = pid
        self.tier = tier
        self.seed = seed
        self.t0 = time.time()
        self.cov = dict(states=0, transitions=0, traces_validated_against_impl=0,
                        evaluations=0, distinct_nontrivial=0, rule="", samples=[],
                        exhaustive=True, caps_hit=[], bounds={}, parts={})
        self.violations = []       # Violation
        self.assumptions = []
        self.harness_notes = []
        self._state_hashes = set()
        self._nontrivial = set()

    # -- coverage helpers ---------------------------------------------------
    def add_states(self, hashes):
        self._state_hashes.update(hashes)

    def add_nontrivial(self, keys):
        self._nontrivial.update(keys)

    def part(self, name, **kw):
        d = self.cov["parts"].setdefault(name, {})
        for k, v in kw.items():
            if isinstance(v, (int, float)) and not isinstance(v, bool) and isinstance(d.get(k), (int, float)):
                d[k] += v
            else:
                d[k] = v

    def sample(self, s):
        if len(self.cov["samples"]) < 4:
            self.cov["samples"].append(s)

    def cap(self, what):
        self.cov["exhaustive"] = False
        self.cov["caps_hit"].append(what)

    def add_violations(self, vs):
        self.violations.extend(vs)

    # -- finish -------------------------------------------------------------
    def finish(self, predicates=None):
        """Write evidence, print protocol lines, return exit code."""
        predicates = predicates or {}
        cov = self.cov
        cov["states"] = max(cov["states"], len(self._state_hashes))
        cov["distinct_nontrivial"] = max(cov["distinct_nontrivial"], len(self._nontrivial))
        known = [k for k in load_known() if k.get("property") == self.pid and k.get("status", "open") == "open"]
        # group by signature, keep the smallest witness of each
        groups = {}
        for v in self.violations:
            g = groups.setdefault(v.sig(), [])
            g.append(v)
        new, matched = [], {}
        for sig, vs in groups.items():
            vs.sort(key=lambda v: v.size())
            unmatched = []
            for v in vs:
                hit = None
                for k in known:
                    if k["monitor"] in ("*", v.monitor) and k["kind"] == v.kind and k.get("site", "") == v.site:
                        pred = predicates.get(k.get("predicate"))
                        if pred is not None and pred(v):
                            hit = k
                            break
                if hit is None:
                    unmatched.append(v)
                else:
                    matched.setdefault(hit["id"], [hit, 0])[1] += 1
            if unmatched:
                new.append((sig, unmatched))
        for kid, (k, n) in sorted(matched.items()):
            print(f"KNOWN-FINDING: property={self.pid} {k['id']}: {k['what']} (matched {n} case(s) in this run)")
        rc = 0
        os.makedirs(os.path.join(VERIF, "replays"), exist_ok=True)
        shown = 0
        for sig, vs in sorted(new, key=lambda x: x[0]):
            v = vs[0]
            rec = dict(property=self.pid, **v.to_json(), cases_with_this_signature=len(vs))
            path = os.path.join(VERIF, "replays", f"{self.pid}-{jhash(rec)}.json")
            with open(path, "w") as f:
                json.dump(rec, f, indent=1, default=str)
            rc = 1
            if shown < 12:
                print(f"VIOLATION property={self.pid} replay={path}")
                print(f"  monitor={v.monitor} kind={v.kind} site={v.site} cases={len(vs)}")
                print(f"  detail: {str(v.detail)[:600]}")
                shown += 1
        wall = time.time() - self.t0
        cov["known_findings_matched"] = {k: n for k, (_, n) in matched.items()}
        cov["transitions"] = int(cov["transitions"])
        ev = dict(property_id=self.pid, tier=self.tier, seed=self.seed, level=LEVEL,
                  coverage=cov, assumptions=self.assumptions, wall_s=round(wall, 2),
                  violations=sum(len(vs) for _, vs in new))
        if self.harness_notes:
            ev["coverage"]["harness_notes"] = self.harness_notes
            for n_ in self.harness_notes:
                print(f"HARNESS-NOTE {self.pid}: {str(n_)[:300]}")
        os.makedirs(os.path.join(VERIF, "evidence"), exist_ok=True)
        with open(os.path.join(VERIF, "evidence", f"{self.pid}.json"), "w") as f:
            json.dump(ev, f, indent=1, default=str)
        print(f"[{self.pid}] tier={self.tier} seed={self.seed} states={cov['states']} transitions={cov['transitions']} "
              f"executions={cov['evaluations']} nontrivial={cov['distinct_nontrivial']} exhaustive={cov['exhaustive']} "
              f"violations={ev['violations']} known={sum(n for _, n in matched.values())} wall={wall:.1f}s")
        return rc


def harness_error(msg):
    print(f"HARNESS-ERROR {msg}")
    sys.exit(2)
