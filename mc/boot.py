"""Bootstrap: pin hash seed, import the eudoxia package from the tree under test,
silence logging, take ownership of identifier generators."""
import os, sys, logging, itertools

REPO = os.environ.get("VERIF_REPO", "/repo")
VERIF = os.path.dirname(os.path.dirname(os.path.abspath(__file__)))
GUARD = "EUDOXIA_VERIF"


def reexec_with_hashseed():
    """The runner re-executes itself once so that set/dict-of-object order is
    reproducible (PYTHONHASHSEED=0). C07 varies it deliberately in children."""
    if os.environ.get("PYTHONHASHSEED") != "0":
        env = dict(os.environ)
        env["PYTHONHASHSEED"] = "0"
        os.execve(sys.executable, [sys.executable] + sys.orig_argv[1:], env)


_loaded = False


def load():
    """Import eudoxia from REPO's working tree (never from a stale copy)."""
    global _loaded
    if _loaded:
        return
    os.environ.setdefault(GUARD, "1")
    if REPO != "/repo" or True:
        # the editable install points at /repo; an explicit path entry makes a
        # scratch tree (VERIF_REPO) win and is harmless for /repo itself
        sys.path.insert(0, REPO)
    cwd = os.getcwd()
    try:
        os.chdir(VERIF)  # eudoxia/__init__ probes ./logging.conf
        import eudoxia  # noqa
    finally:
        os.chdir(cwd)
    here = os.path.realpath(eudoxia.__file__)
    if not here.startswith(os.path.realpath(REPO) + os.sep):
        print(f"HARNESS-ERROR eudoxia imported from {here}, expected under {REPO}")
        sys.exit(2)
    logging.disable(logging.CRITICAL)
    _loaded = True


class IdGen:
    """Deterministic replacement for uuid.uuid4 inside eudoxia.utils.dag.
    mode: 'asc' (counter), 'desc', or a list giving explicit ints to cycle."""

    def __init__(self):
        self.reset()

    def reset(self, mode="asc", order=None):
        self.n = 0
        self.mode = mode
        self.order = order

    def __call__(self):
        import uuid
        self.n += 1
        k = self.n
        if self.order is not None:
            base = (k - 1) // len(self.order)
            k = base * len(self.order) + self.order[(k - 1) % len(self.order)] + 1
        if self.mode == "desc":
            k = (1 << 64) - k
        elif self.mode == "scramble":
            k = (k * 0x9E3779B97F4A7C15) & ((1 << 64) - 1)
        return uuid.UUID(int=k)


IDGEN = IdGen()
_REAL_UUID4 = None


def own_ids():
    """Route Node ids / DAG ids through IDGEN."""
    global _REAL_UUID4
    load()
    import eudoxia.utils.dag as dag
    import uuid as _uuid

    class _U:
        UUID = _uuid.UUID

        @staticmethod
        def uuid4():
            return IDGEN()

    if _REAL_UUID4 is None:
        _REAL_UUID4 = _uuid.uuid4
        dag.uuid = _U


def release_ids():
    import eudoxia.utils.dag as dag
    import uuid as _uuid
    dag.uuid = _uuid


def fresh_execution(id_mode="asc", id_order=None, container_start=1):
    """Reset process-global state before every execution."""
    from eudoxia.executor.container import Container
    Container.next_container_num = container_start
    IDGEN.reset(id_mode, id_order)
