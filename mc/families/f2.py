"""F2: suspension sweep. One multi-operator container (optionally with a neighbour in the same
pool); a suspension of any container ever seen may be requested at every tick of the run (each
request is a deviation); a default policy re-assigns whatever returns to pending."""
from ..world import World, Suspend, C, P, F, A, R
from ..explorer import Chooser, explore_subtree, children, pmap
from . import f1


def build_menu(w, sc):
    ex = w.executor
    m = []
    default = ("none",)
    # default: (re)assign all assignable operators of the first pipeline with work, with its scripted size
    for i, p in enumerate(w.pipelines):
        st = p.runtime_status()
        ops = [op for op, s in st.operator_states.items() if s.value in (P, F)]
        if ops and all(par.state().value == C or par in ops for op in ops for par in op.parents):
            spec = sc["pipelines"][w.all_index[p]]
            cpu, ram = spec.get("cpu", 1), spec["alloc"]
            pool = ex.pools[0]
            if pool.avail_cpu_pool >= cpu and (pool.avail_ram_pool >= ram or w.overcommit):
                default = ("assign", [ops], [(0, cpu, ram)])
                break
    m.append(default)
    if default != ("none",):
        m.append(("none",))
    where = {}
    for p in ex.pools:
        for c in list(p.active_containers) + list(p.suspending_containers) + list(p.suspended_containers):
            where[c.container_id] = p.pool_id
    for cid in list(w.key_of_cid)[-3:]:
        m.append(("suspend", cid, where.get(cid, 0)))
    running = [c for p in ex.pools for c in p.active_containers]
    if len(running) > 1:
        m.append(("suspend-many", [(c.container_id, c.pool_id) for c in running]))
        m.append(("suspend-many", [(c.container_id, c.pool_id) for c in running if c.can_suspend_container()] or [(running[0].container_id, running[0].pool_id)]))
    if getattr(w, "probes_left", False) and getattr(w, "suspension_requested", False):
        # fill the pool as a scheduler would, trusting the free figures the pool states right now (see probe_fill)
        m.append(("probe",))
    return m


def probe_assignments(w, sc):
    idx = [i for i, ps in enumerate(sc["pipelines"]) if ps.get("probe")]
    w.probes_left = False
    if not idx:
        return []
    w.arrive(idx)
    pool = w.executor.pools[0]
    share = sc["pipelines"][idx[0]]["alloc"]
    asg = []
    free_cpu, free_ram = pool.avail_cpu_pool, pool.avail_ram_pool
    for i in idx:
        if free_cpu >= 1 and free_ram >= share:
            p, ops, ps = w.all_pipes[i]
            a = w.make_assignment(ops, 1, share, 0)
            if a is None:
                return None
            asg.append(a)
            free_cpu -= 1
            free_ram -= share
    return asg


def run(sc, ch, trace=None):
    w = World(sc)
    w.all_index = {p: i for i, (p, _, _) in enumerate(w.all_pipes)}
    w.probes_left = any(ps.get("probe") for ps in sc["pipelines"])
    try:
        arr = {}
        for i, ps in enumerate(sc["pipelines"]):
            arr.setdefault(ps.get("arrival", 0), []).append(i)
        for t in range(sc["horizon"]):
            w.arrive(arr.get(t, []))
            w.boundary_checks()
            menu = build_menu(w, sc)
            k = ch.choose(len(menu), t)
            if trace is not None:
                trace.append(dict(tick=t, command=f1.describe(w, menu[k]), menu_size=len(menu)))
            if menu[k][0].startswith("suspend"):
                w.suspension_requested = True
            if menu[k][0] == "probe":
                pa = probe_assignments(w, sc)
                got = None if pa is None else ([], pa)
            else:
                got = f1.realize(w, menu[k])
            if got is None or w.ended:
                break
            w.boundary_checks()
            snap_before = snapshot(w) if (menu[k][0] == "suspend" and w.npools == 1) else None
            res = w.exec_phase(*got)
            if (w.ended and snap_before is not None and w.exception is not None and w.exception[0] == "exec"
                    and w.last_reject is not None and w.last_reject.startswith("suspend") and snapshot(w) == snap_before):
                # a refused suspension request that left no observable trace: a caller may catch the error and go on;
                # the tick did not happen (the model did not advance either), everything stated must keep holding
                w.ended = False
                w.exception = None
                w.model_dead = False
                w.stats["resumed_after_refused_suspend"] = w.stats.get("resumed_after_refused_suspend", 0) + 1
                if trace is not None:
                    trace[-1]["exception"] = "refused (no observable effect); run continues"
                continue
            if trace is not None:
                trace[-1]["results"] = None if res is None else [(r.container_id, r.error) for r in res]
                trace[-1]["exception"] = None if w.exception is None else f"{type(w.exception[2]).__name__}: {w.exception[2]} @ {w.exception[3]}"
                trace[-1]["pools"] = [(p.avail_cpu_pool, p.avail_ram_pool, p.consumed_ram_gb, [c.container_id for c in p.active_containers], [c.container_id for c in p.suspending_containers]) for p in w.executor.pools]
                trace[-1]["ops"] = {w.name(o): s.value for p in w.pipelines for o, s in p.runtime_status().operator_states.items()}
            if w.ended:
                break
            w.boundary_checks()
        # at the horizon everything must have completed unless a rejection ended the run
        if not w.ended and sc.get("expect_all_done") and ch.deviations() <= sc.get("done_within_deviations", 99):
            for p in w.pipelines:
                if sc["pipelines"][w.all_index[p]].get("probe"):
                    continue
                if not p.runtime_status().is_pipeline_successful():
                    w.flag({"C10"}, "work-not-finished-after-suspension",
                           f"{p.pipeline_id}: states {[s.value for s in p.runtime_status().operator_states.values()]} at horizon {sc['horizon']}")
        if not w.ended:
            probe_fill(w, sc)
    finally:
        w.close()
    return w


def probe_fill(w, sc):
    """Epilogue: after whatever history the run had, fill pool 0 the way a scheduler would - trusting the free figures the
    pool itself states - with containers that really use what they are given (34% of the pool each, 1 CPU each), and
    keep checking. With sound bookkeeping two of them fit; bookkeeping that has handed something back twice admits a
    third, and the pool then uses more memory than it has (C04) although nobody exceeds an allocation."""
    if not w.probes_left:
        return
    asg = probe_assignments(w, sc)
    if asg is None:
        return
    for k in range(3):
        w.boundary_checks()
        w.exec_phase([], asg if k == 0 else [])
        if w.ended:
            return
    w.boundary_checks()


def mass_scenarios(tier):
    """n two-operator containers in one pool, ALL suspended in the tick they reach their boundary (write-outs of 2 and 4
    ticks: n containers are writing out at the same time), everything handed back is re-assigned and runs to the end; and
    the same in waves (n/8 per tick). n follows the constants of the executor sources (mc/scale.py)."""
    from .. import scale as _scale
    n, info = _scale.size(["executor/"], 16 if tier == "quick" else 48, 3000, factor=1)
    n += 24
    out = []
    for alloc, waves in ((40, 1), (80, 1), (40, 8)):
        pipes = [dict(prio="B", arrival=(i * waves) // n, alloc=alloc, cpu=1, parents=[[], [0]],
                      ops=[[dict(cpu=1.0, scaling="const", mem=0.25, read=0)], [dict(cpu=2.0, scaling="const", mem=0.25, read=0)]]) for i in range(n)]
        out.append(dict(name=f"F2-mass-n{n}-a{alloc}-w{waves}", tps=1, pools=1, cpus=n, ram=float(alloc * n), overcommit=False, multi=True,
                        horizon=waves + 16, pipelines=pipes, mass=True))
    return out


def mass_run(sc):
    """default policy: assign whatever is assignable (scripted size); suspend every container the moment it is suspendable,
    once; no choices"""
    w = World(sc)
    w.all_index = {p: i for i, (p, _, _) in enumerate(w.all_pipes)}
    try:
        arr = {}
        for i, ps in enumerate(sc["pipelines"]):
            arr.setdefault(ps["arrival"], []).append(i)
        suspended_once = set()
        for t in range(sc["horizon"]):
            if sc.get("straddle") and not w.pipelines and t not in arr:
                w.exec_phase([], [])      # idling until the scripted moment
                if w.ended:
                    break
                continue
            w.arrive(arr.get(t, []))
            w.boundary_checks()
            pool = w.executor.pools[0]
            sus = [Suspend(c.container_id, 0) for c in pool.active_containers if c.container_id not in suspended_once and c.can_suspend_container()]
            suspended_once |= {s_.container_id for s_ in sus}
            asg = []
            for p in w.pipelines:
                ops = [op for op, s_ in p.runtime_status().operator_states.items() if s_.value in (P, F)]
                if ops:
                    spec = sc["pipelines"][w.all_index[p]]
                    a = w.make_assignment(ops, 1, spec["alloc"], 0)
                    if a is None:
                        break
                    asg.append(a)
            if w.ended:
                break
            w.exec_phase(sus, asg)
            if w.ended:
                break
            w.boundary_checks()
        if not w.ended:
            for p in w.pipelines:
                if not p.runtime_status().is_pipeline_successful():
                    w.flag({"C10", "C03", "C09"}, "work-not-finished-after-suspension", f"{p.pipeline_id}: {[s_.value for s_ in p.runtime_status().operator_states.values()]} at horizon {sc['horizon']}")
                    break
    finally:
        w.close()
    return w


def straddle_scenarios(tier):
    """a suspension whose write-out (20 ticks) straddles tick c of the run, for every new constant c of the executor sources
    (periodic housekeeping 'every c ticks'), and for c = 64 otherwise; the run idles until then"""
    from .. import scale as _scale
    cs = sorted({int(v) for f, v in _scale.new_constants() if "executor/" in f and 32 <= v <= (1_200_000 if tier == "quick" else 2_300_000)}) or [64]
    out = []
    for c in cs[:4]:
        pipes = [dict(prio="B", arrival=max(0, c - 7), alloc=40, cpu=2, parents=[[], [0]],
                      ops=[[dict(cpu=0.1, scaling="const", mem=0.25, read=0)], [dict(cpu=0.2, scaling="const", mem=0.25, read=0)]])]
        out.append(dict(name=f"F2-straddle-{c}", tps=10, pools=1, cpus=8, ram=64.0, overcommit=False, multi=True, horizon=c + 40, pipelines=pipes, mass=True, straddle=True))
    return out


def mass_work(sc):
    class _Ch:
        choices = []
    w = mass_run(sc)
    return f1.summarize(sc, _Ch, w)


def snapshot(w):
    """everything observable about executor and pipelines"""
    ex = w.executor
    return ([(p.avail_cpu_pool, p.avail_ram_pool, p.get_consumed_ram_gb(), [c.container_id for c in p.active_containers],
              [c.container_id for c in p.suspending_containers], [c.container_id for c in p.suspended_containers],
              [c.get_current_memory_usage() for c in p.active_containers]) for p in ex.pools],
            [[s_.value for s_ in pl.runtime_status().operator_states.values()] for pl in w.pipelines])


def dur(k, tps):
    """k ticks of CPU time, placed safely inside the tick for non-dyadic tick rates."""
    pow2 = (tps & (tps - 1)) == 0
    return (k if pow2 else k + 0.5) / tps


def scenarios(tier):
    out = []
    shapes = [(1, 1), (2, 1), (1, 2), (1, 1, 1)] if tier == "quick" else [(1, 1), (2, 1), (1, 2), (3, 1), (1, 1, 1), (2, 1, 2)]
    for tps in ([1, 2, 10] if tier == "quick" else [1, 2, 4, 10, 20]):
        allocs = [0.5, 1, 4, 25, 41, 64] if tier == "thorough" else [0.5, 4, 25, 64]
        for alloc in allocs:
            if (tps & (tps - 1)) and (alloc * tps) % 20 == 0:
                alloc = alloc + 0.3   # keep the write-out duration off a float boundary
            for shape in shapes:
                for nb in ([None, "run"] if tier == "quick" else [None, "run", "oom", "short"]):
                    d = max(1, int(alloc / 20 * tps))
                    life = sum(shape)
                    pipes = [dict(prio="B", arrival=0, alloc=alloc, cpu=1, parents=[[i - 1] if i else [] for i in range(len(shape))],
                                  ops=[[dict(cpu=dur(k, tps), scaling="const", mem=min(0.25, alloc), read=0)] for k in shape])]
                    pool_ram = 128
                    if nb == "run":
                        pipes.append(dict(prio="I", arrival=1, alloc=8, cpu=1, parents=[[]], ops=[[dict(cpu=dur(3, tps), scaling="const", mem=1, read=0)]]))
                    elif nb == "short":
                        pipes.append(dict(prio="I", arrival=1, alloc=8, cpu=1, parents=[[]], ops=[[dict(cpu=dur(1, tps), scaling="const", mem=1, read=0)]]))
                    elif nb == "oom":
                        pipes.append(dict(prio="I", arrival=1, alloc=8, cpu=1, parents=[[], [0]], ops=[[dict(cpu=dur(1, tps), scaling="const", mem=1, read=0)],
                                                                                                       [dict(cpu=dur(2, tps), scaling="const", mem=9, read=0)]]))
                    # three probe pipelines for the epilogue (never arrive during the run proper)
                    share = 0.34 * pool_ram
                    for _ in range(3):
                        pipes.append(dict(prio="B", arrival=-1, probe=True, alloc=share, cpu=1, parents=[[]],
                                          ops=[[dict(cpu=dur(2, tps), scaling="const", mem=share - 0.5, read=0)]]))
                    want = life * 3 + 3 * d + 6
                    horizon = min(want, 48)
                    out.append(dict(name=f"F2-tps{tps}-a{alloc}-{'x'.join(map(str, shape))}-{nb}", tps=tps, pools=1, cpus=3, ram=pool_ram,
                                    overcommit=False, multi=True, horizon=horizon, pipelines=pipes,
                                    expect_all_done=(nb != "oom" and want <= 48), done_within_deviations=1))
    # multi-segment operators, incl. a first segment that rounds to zero ticks (the boundary flag must still be cleared)
    for tps in ((2,) if tier == "quick" else (2, 4)):
        z = dict(cpu=0.0, scaling="const", mem=0.25, read=0)
        c = lambda k: dict(cpu=dur(k, tps), scaling="const", mem=0.25, read=0)
        for name, ops in (("z-first", [[c(1)], [z, c(2)], [c(1)]]), ("z-middle", [[c(1)], [c(1), z, c(1)], [c(1)]]), ("two-seg", [[c(1), c(1)], [c(1), c(1)]]),
                          # a last segment of exactly one tick behind a longer one: the operator ends after it, not before
                          ("two-one", [[c(2), c(1)], [c(1)]]), ("one-two-one", [[c(1)], [c(2), c(1)], [c(1)]]), ("three-one-z", [[c(3), c(1), z], [c(2)]])):
            for alloc in (4, 25):
                pipes = [dict(prio="B", arrival=0, alloc=alloc, cpu=1, parents=[[i - 1] if i else [] for i in range(len(ops))], ops=ops)]
                out.append(dict(name=f"F2-segs-{name}-tps{tps}-a{alloc}", tps=tps, pools=1, cpus=3, ram=128, overcommit=False, multi=True,
                                horizon=18, pipelines=pipes, expect_all_done=True, done_within_deviations=1))
    # trios: three two-operator containers that reach their operator boundary in the same tick, so that
    # several suspensions can be requested together and several write-outs can end in the same tick
    for tps, allocs in ((2, (25, 25, 64)), (2, (25, 64, 25)), (2, (64, 25, 25)), (4, (12, 12, 30)), (10, (4.3, 4.3, 20.3))):
        if tier == "quick" and tps == 4:
            continue
        pipes = []
        for i, a in enumerate(allocs):
            pipes.append(dict(prio="B", arrival=i, alloc=a, cpu=1, parents=[[], [0]],
                              ops=[[dict(cpu=dur(3 - i, tps), scaling="const", mem=0.25, read=0)], [dict(cpu=dur(1, tps), scaling="const", mem=0.25, read=0)]]))
        d = max(1, int(max(allocs) / 20 * tps))
        out.append(dict(name=f"F2-trio-tps{tps}-{'-'.join(map(str, allocs))}", tps=tps, pools=1, cpus=3, ram=160, overcommit=False, multi=True,
                        horizon=min(3 + 2 * d + 8, 36), pipelines=pipes, expect_all_done=True, done_within_deviations=1))
    return out


def explore(sc, bound):
    tot = f1.new_acc()

    def on_exec(ch, w):
        f1.merge(tot, f1.summarize(sc, ch, w))

    explore_subtree(lambda ch: run(sc, ch), [], bound, on_exec)
    return tot
