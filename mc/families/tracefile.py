"""File-level drivers shared by C13/C14/C20: build workloads, write traces with the real
writer, read them with the real reader, replay with the real WorkloadTrace."""
import io, math, itertools
from decimal import Decimal
from fractions import Fraction as Fr
from .. import boot

boot.load()
from eudoxia.workload.pipeline import Pipeline, Segment
from eudoxia.workload.workload import Workload, WorkloadTrace
from eudoxia.workload.csv_io import CSVWorkloadReader, CSVWorkloadWriter, WorkloadTraceGenerator, CSVOperatorRow
from eudoxia.utils import Priority

PRIOS = [Priority.QUERY, Priority.INTERACTIVE, Priority.BATCH_PIPELINE]
HEADER = "pipeline_id,arrival_seconds,priority,operator_id,parents,baseline_cpu_seconds,cpu_scaling,memory_gb,storage_read_gb"


class TickScript(Workload):
    """emits the given pipelines at the given ticks"""

    def __init__(self, by_tick):
        self.by_tick = by_tick
        self.t = 0

    def run_one_tick(self):
        out = self.by_tick.get(self.t, [])
        self.t += 1
        return out


def tiny_pipeline(i, prio=Priority.BATCH_PIPELINE):
    p = Pipeline(f"x{i}", prio)
    op = p.new_operator()
    op.add_segment(Segment(baseline_cpu_seconds=1, cpu_scaling="const", storage_read_gb=1))
    return p


def write_trace(workload, tps, duration_secs):
    buf = io.StringIO()
    w = CSVWorkloadWriter(buf)
    gen = WorkloadTraceGenerator(workload=workload, ticks_per_second=tps, duration_secs=duration_secs)
    n = 0
    for row in gen.generate_rows():
        w.write_row(row)
        n += 1
    return buf.getvalue(), n


def replay_ticks(text, tps, nticks):
    """Replay a CSV text with the real reader + WorkloadTrace; returns list per tick of pipeline ids."""
    rd = CSVWorkloadReader(io.StringIO(text))
    tr = rd.get_workload(tps)
    out = []
    for t in range(nticks):
        out.append([p.pipeline_id for p in tr.run_one_tick()])
    return out


def exact_tick(text, tps):
    """first tick whose start is at or after the arrival time, in exact arithmetic"""
    x = Fr(Decimal(text)) * tps
    return math.ceil(x)


def float_quotient_above(text, tps):
    """IEEE evaluation of arrival / (1.0 / tps) as any float implementation computes it"""
    return float(text) / (1.0 / tps)


def row_line(pid, arrival, prio, oid, parents, cpu=1, scaling="const", mem="", read=1):
    return f"{pid},{arrival},{prio},{oid},{parents},{cpu},{scaling},{mem},{read}"
