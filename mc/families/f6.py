"""F6: end-to-end. The REAL run_simulator(params, workload=scripted or None) runs; Scheduler and
Executor entry points are wrapped at class level so every round of the real main loop is observed
by the same World (reference executor, invariants, policy monitors); afterwards the returned
SimulatorStats are compared with an independent recount of the recorded events."""
import math, collections
from .. import boot
from ..world import World, site_of, SV, C, P, F, A, R
from ..policy import PolicyMonitor, Round
from . import f1, f5

boot.load()
import numpy as np
from eudoxia.simulator import run_simulator, SimulatorStats
from eudoxia.executor.executor import Executor
from eudoxia.scheduler.scheduler import Scheduler
from eudoxia.workload.workload import Workload
from eudoxia.workload.runtime_status import PipelineRuntimeStatus

REC = None
_o_exec = Executor.run_one_tick
_o_sched = Scheduler.run_one_tick
_o_arr = PipelineRuntimeStatus.record_arrival
_o_fin = PipelineRuntimeStatus.record_finish
_hooked = False


class Recorder:
    def __init__(self, sc):
        self.sc = sc
        self.w = World(sc)
        self.pm = None
        self.rd = None
        self.arrivals = []      # (tick, pipeline)
        self.finishes = []      # (declared tick, pipeline, w.tick when declared)
        self.n_asg = 0
        self.n_sus = 0
        self.results = []       # (tick, failed, error, container_id)
        self.starts = {}        # id(operator) -> tick of the latest executed assignment holding it
        self.durations = []     # per result: ticks from the tick its assignment was executed to the tick of the result, inclusive
        self.sched_calls = 0
        self.exec_calls = 0
        self.adopted = False
        self.last_results = []


def _exec(self, suspensions, assignments):
    r = REC
    if r is None:
        return _o_exec(self, suspensions, assignments)
    w = r.w
    if not r.adopted:
        w.executor = self
        r.adopted = True
    w.exec_call = lambda s, a: _o_exec(self, s, a)
    r.exec_calls += 1
    n0 = len(w.mm)
    t_exec = w.tick
    res = w.exec_phase(suspensions, assignments)
    if w.ended and w.exception is not None and w.exception[0] == "exec":
        e = w.exception[2]
        w.flag({"C08"}, "executor-raised", f"tick {w.tick}: {type(e).__name__}: {e}", ("model-reject:" + w.reject_reason()) if w.reject_reason() else w.exception[3])
        raise e
    for m in w.mm[n0:]:
        if m.kind == "inadmissible-command-executed":
            m.tags.add("C08")
    r.n_asg += len(assignments)
    r.n_sus += len(suspensions)
    for a in assignments:
        for op in a.ops:
            r.starts[id(op)] = t_exec
    for x in res:
        r.results.append((w.tick - 1, x.failed(), x.error, x.container_id))
        if x.ops and id(x.ops[0]) in r.starts:
            r.durations.append(w.tick - 1 - r.starts[id(x.ops[0])] + 1)
        else:
            r.durations.append(None)
    if r.pm is not None and r.sc["scheduler"] == "overbook":
        r.pm.after_exec_overbook()
    w.boundary_checks()
    r.last_results = res
    return res


def _sched(self, results, pipelines):
    r = REC
    if r is None:
        return _o_sched(self, results, pipelines)
    w = r.w
    if not r.adopted:
        w.executor = self.executor
        r.adopted = True
    if r.pm is None:
        r.pm = PolicyMonitor(w, r.sc["scheduler"])
    r.sched_calls += 1
    for p in pipelines:
        if p not in w.pipelines:
            w.register(p, record=False)
    rd = Round(w, results, pipelines)
    w.phase = "sched"
    try:
        sus, asg = _o_sched(self, results, pipelines)
    except Exception as e:
        w.exception = ("sched", w.tick, e, site_of(e))
        w.flag({"C08"}, "scheduler-raised", f"tick {w.tick}: {type(e).__name__}: {e}", site_of(e))
        raise
    w.note_scheduler_assignments(asg)
    rd.done(w, sus, asg)
    r.pm.check(rd)
    w.boundary_checks()
    return sus, asg


def _arr(self, tick):
    r = REC
    if r is not None:
        r.arrivals.append((tick, self.pipeline, r.w.tick))
    return _o_arr(self, tick)


def _fin(self, tick):
    r = REC
    if r is not None:
        r.finishes.append((tick, self.pipeline, r.w.tick))
    return _o_fin(self, tick)


def hook():
    global _hooked
    if not _hooked:
        Executor.run_one_tick = _exec
        Scheduler.run_one_tick = _sched
        PipelineRuntimeStatus.record_arrival = _arr
        PipelineRuntimeStatus.record_finish = _fin
        _hooked = True


class Scripted(Workload):
    """Delivers pre-built pipelines at scripted ticks; logs what it delivered."""

    def __init__(self, world, by_tick):
        self.world = world
        self.by_tick = by_tick
        self.t = 0
        self.delivered = []

    def run_one_tick(self):
        out = [self.world.all_pipes[i][0] for i in self.by_tick.get(self.t, [])]
        for p in out:
            self.delivered.append((self.t, p))
        self.t += 1
        return out


def params_of(sc):
    algo = sc["scheduler"]
    key = f5.ensure_starter() if algo == "starter" else algo
    p = dict(duration=sc["duration"], ticks_per_second=sc["tps"], scheduler_algo=key, num_pools=sc["pools"],
             cpus_per_pool=sc["cpus"], ram_gb_per_pool=sc["ram"], multi_operator_containers=sc.get("multi", True),
             allow_memory_overcommit=sc.get("overcommit", False))
    p.update(sc.get("extra_params", {}))
    return p


def run(sc):
    """Returns (world, recorder, stats or None, exception or None)."""
    global REC
    hook()
    r = Recorder(sc)
    w = r.w
    stats, exc = None, None
    try:
        REC = r
        wl = None
        if sc.get("pipelines") is not None:
            by_tick = {}
            for i, ps in enumerate(sc["pipelines"]):
                if ps.get("arrival") is not None:
                    by_tick.setdefault(ps["arrival"], []).append(i)
            wl = Scripted(w, by_tick)
        r.workload = wl
        try:
            stats = run_simulator(params_of(sc), workload=wl)
        except Exception as e:
            exc = e
            if not any(m.kind in ("scheduler-raised", "executor-raised") for m in w.mm):
                w.flag({"C08", "C06"}, f"run-raised:{type(e).__name__}", f"{type(e).__name__}: {e}", site_of(e))
        if stats is not None:
            recount(sc, r, stats)
    finally:
        REC = None
        w.close()
    return w, r, stats, exc


# ---------------------------------------------------------------------------
# independent recount (C06)
# ---------------------------------------------------------------------------

def pct99(xs):
    """99th percentile, linear interpolation (the common definition)."""
    xs = sorted(xs)
    if not xs:
        return float("nan")
    k = 0.99 * (len(xs) - 1)
    lo, hi = math.floor(k), math.ceil(k)
    return xs[lo] + (xs[hi] - xs[lo]) * (k - lo)


def same(a, b):
    if isinstance(a, float) and isinstance(b, float) and math.isnan(a) and math.isnan(b):
        return True
    try:
        return abs(a - b) <= 1e-9 * max(1, abs(a), abs(b))
    except TypeError:
        return a == b


def recount(sc, r, stats):
    w = r.w
    tps = sc["tps"]
    flag = lambda kind, d: w.flag({"C06"}, kind, d)
    delivered = r.workload.delivered if r.workload is not None else [(t, p) for (t, p, _) in r.arrivals]
    arr_tick = {}
    for t, p in delivered:
        arr_tick[p] = t
    # arrivals are recorded in the tick the workload delivered them
    rec_arr = {p: t for (t, p, _) in r.arrivals}
    for p, t in arr_tick.items():
        if rec_arr.get(p) != t:
            flag("arrival-tick", f"{p.pipeline_id} delivered in tick {t}, recorded arrival {rec_arr.get(p)}")
    by_class = collections.Counter(p.priority.name for _, p in delivered)
    # completion tick from the transition log: tick of the last ->completed, if every operator completed
    last_done = {}
    for (seq, tick, phase, op, o, n) in w.tlog:
        if n == C:
            last_done[op] = tick
    comp = {}
    for _, p in delivered:
        ops = list(p.runtime_status().operator_states)
        if not ops:
            # not a well-formed pipeline (every pipeline has at least one operator): nothing can complete it
            w.flag({"C15", "C08"}, "pipeline-without-operators", f"the workload delivered pipeline {p.pipeline_id} with an empty operator DAG")
            continue
        if all(SV[id(s)] == C for s in p.runtime_status().operator_states.values()):
            comp[p] = max(last_done.get(op, -1) for op in ops)
    fin = collections.defaultdict(list)
    for (t, p, wt) in r.finishes:
        fin[p].append((t, wt))
    for p, lst in fin.items():
        if len(lst) > 1:
            flag("counted-twice", f"{p.pipeline_id} declared finished {len(lst)} times: {lst}")
        if p not in comp:
            flag("finished-while-unfinished", f"{p.pipeline_id} declared finished at tick {lst[0][0]} but operators are {[SV[id(s)] for s in p.runtime_status().operator_states.values()]}")
        elif lst[0][0] != comp[p]:
            flag("finish-tick", f"{p.pipeline_id}: last operator completed in tick {comp[p]}, declared finished in tick {lst[0][0]}")
    for p, t in comp.items():
        if p not in fin:
            flag("completion-not-counted", f"{p.pipeline_id} completed in tick {t} (run has {int(sc['duration'] * tps)} ticks) but was never counted")
    lat = collections.defaultdict(list)
    for p, t in comp.items():
        lat[p.priority.name].append(t - arr_tick[p])
    alll = [x for v in lat.values() for x in v]
    groups = [("pipelines_all", sum(by_class.values()), alll), ("pipelines_query", by_class["QUERY"], lat["QUERY"]),
              ("pipelines_interactive", by_class["INTERACTIVE"], lat["INTERACTIVE"]), ("pipelines_batch", by_class["BATCH_PIPELINE"], lat["BATCH_PIPELINE"])]
    for name, narr, ls in groups:
        ps = getattr(stats, name)
        if ps.arrival_count != narr:
            flag("arrival-count", f"{name}.arrival_count={ps.arrival_count}, recount {narr}")
        if ps.completion_count != len(ls):
            flag("completion-count", f"{name}.completion_count={ps.completion_count}, recount {len(ls)}")
        mean = (sum(ls) / len(ls) / tps) if ls else float("nan")
        if not same(float(ps.mean_latency_seconds), mean):
            flag("mean-latency", f"{name}.mean_latency_seconds={ps.mean_latency_seconds}, recount {mean} from latencies {sorted(ls)}")
        p99 = float(ps.p99_latency_seconds)
        if ls:
            s_ = sorted(ls)
            k = 0.99 * (len(s_) - 1)
            lo, hi = s_[math.floor(k)] / tps, s_[math.ceil(k)] / tps
            if not (same(p99, pct99(ls) / tps) or (lo - 1e-9 <= p99 <= hi + 1e-9)):
                flag("p99-latency", f"{name}.p99_latency_seconds={p99}, recount {pct99(ls) / tps} from {s_}")
        elif not math.isnan(p99):
            flag("p99-latency", f"{name}.p99_latency_seconds={p99} for an empty class (expected NaN)")
    if stats.pipelines_created != len(delivered):
        flag("pipelines-created", f"{stats.pipelines_created} vs {len(delivered)} delivered")
    ok = sum(1 for (_, failed, _, _) in r.results if not failed)
    bad = [(e) for (_, failed, e, _) in r.results if failed]
    if stats.containers_completed != ok:
        flag("containers-completed", f"{stats.containers_completed} vs {ok} success results")
    if not same(float(stats.throughput), ok / sc["duration"]):
        flag("throughput", f"{stats.throughput} vs {ok}/{sc['duration']}")
    # the run-level p99 is taken over the run times of exactly the containers that delivered a result (success or failure)
    top = getattr(stats, "p99_latency", None)
    if top is not None and None not in r.durations:
        top = float(top)
        if r.durations:
            s_ = sorted(r.durations)
            k = 0.99 * (len(s_) - 1)
            lo, hi = s_[math.floor(k)] / tps, s_[math.ceil(k)] / tps
            if not (same(top, pct99(r.durations) / tps) or (lo - 1e-9 <= top <= hi + 1e-9)):
                flag("container-p99", f"p99_latency={top}, recount {pct99(r.durations) / tps} over the run times of the {len(s_)} containers that reported a result: {s_[:40]}")
        elif not math.isnan(top):
            flag("container-p99", f"p99_latency={top} although no container reported a result (expected NaN)")
    recorded = getattr(getattr(w, "executor", None), "container_tick_times", None)
    if callable(recorded) and None not in r.durations:
        try:
            rec_l = sorted(recorded())
        except Exception:
            rec_l = None
        if rec_l is not None and rec_l != sorted(r.durations):
            flag("container-run-times", f"the run times behind p99_latency {rec_l[:40]} are not those of the {len(r.durations)} containers that reported a result {sorted(r.durations)[:40]}")
    if stats.assignments != r.n_asg:
        flag("assignments", f"{stats.assignments} vs {r.n_asg} issued")
    if stats.suspensions != r.n_sus:
        flag("suspensions", f"{stats.suspensions} vs {r.n_sus} issued")
    if stats.failures != len(bad):
        flag("failures", f"{stats.failures} vs {len(bad)} failure results")
    if dict(stats.failure_error_counts) != dict(collections.Counter(bad)):
        flag("error-counts", f"{stats.failure_error_counts} vs {dict(collections.Counter(bad))}")
    nticks = int(sc["duration"] * tps)
    if r.exec_calls != nticks:
        flag("tick-count", f"executor ran {r.exec_calls} ticks for duration {sc['duration']} s at {tps}/s")
    # an uncontended pipeline with enough memory finishes in exactly the ticks its operators need
    if sc.get("uncontended"):
        for p, t in comp.items():
            need = sc["uncontended"]
            if t - arr_tick[p] + 1 != need:
                flag("uncontended-latency", f"{p.pipeline_id}: arrival {arr_tick[p]}, finish {t}: {t - arr_tick[p] + 1} ticks, operators need {need}")
        if delivered and not comp and nticks >= max(t for t, _ in delivered) + sc["uncontended"] + 1:
            flag("uncontended-latency", f"pipeline did not finish within {nticks} ticks although its operators need {sc['uncontended']}")


# ---------------------------------------------------------------------------
# scenario space
# ---------------------------------------------------------------------------

def space(kind, tier):
    q = tier == "quick"
    out = []
    algos = [("naive", (1, 2, 8, True, False)), ("naive", (2, 2, 8, False, False)), ("priority", (1, 10, 40, True, False)), ("priority", (1, 1, 25, False, False)),
             ("priority-pool", (2, 10, 40, True, False)), ("overbook", (1, 2, 8, True, True)), ("overbook", (2, 3, 4, True, True)), ("starter", (1, 2, 8, False, False))]
    if kind == "gen":
        return gen_space(tier)
    if kind == "bulk":
        # MANY short pipelines through the real main loop (bounded buffers, windows and sampled statistics only matter beyond
        # some count); the count follows the constants of the simulator / executor sources (mc/scale.py)
        from .. import scale as _scale
        n, info = _scale.size(["simulator.py", "executor/", "workload/runtime_status", "workload/pipeline"], 240 if q else 1200, 30000 if q else 140000, factor=1.25)
        combo = tuple((("I" if i % 25 == 0 else "B"), i // 8, "single", ("s1",) if i % 2 else ("s2",)) for i in range(n))
        for algo, cfg in (("naive", (16, 1, 4, True, False)), ("priority", (1, 160, 1600, True, False))):
            if algo == "priority" and n > 20000:
                continue
            out.append((algo, cfg, combo, 1, n // 8 + 12, dict(small=0.25), None))
        # ... and all of them through ONE pool, one per tick
        prof1 = lambda i: "s9" if i % 97 == 0 else ("s3" if i % 41 == 0 else ("s2" if i % 3 == 0 else "s1"))    # a long tail: the 99th percentile sits in it
        n1 = min(n, 30000)      # (one pool works through them one after the other: capped lower)
        combo1 = tuple((("I" if i % 25 == 0 else "B"), i, "single", (prof1(i),)) for i in range(n1))
        out.append(("naive", (1, 1, 4, True, False), combo1, 1, sum(int(prof1(i)[1:]) for i in range(n1)) + 12, dict(small=0.25), None))
        return out
    if kind == "susp":
        # preemption under the priority scheduler; the run is cut at every tick around the write-out
        for tps in (1, 2):
            for cfg in ((1, 1, 40, True, False), (1, 1, 25, True, False), (2, 1, 40, True, False)):
                for batch in (("B", 0, "chain3", ("s2", "s2", "s1")), ("I", 0, "chain2", ("s2", "s3"))):
                    for qarr in (1, 2, 3):
                        for durt in range(2, 15 if q else 21):
                            combo = (batch, ("Q", qarr, "single", ("s1",)))
                            out.append(("priority", cfg, combo, tps, durt, dict(over=9.5), None))
                            out.append(("priority", cfg, combo + (("Q", qarr, "single", ("s2",)),), tps, durt, dict(over=9.5), None))
        # ... and preemption FOLLOWED by a failure of the resumed work: the operator behind the boundary does not fit into the
        # allocation the container is resumed with (short fillers / two queries free more than it held, so it is resumed as it was)
        for cfg in ((1, 3, 40, True, False), (1, 4, 40, True, False), (1, 20, 200, True, False)):
            nf = min(cfg[1] - 1, 3)
            over = max(1, int(cfg[2] / 10)) + 0.5
            for batch in (("B", 0, "chain2", ("s2", "over")), ("B", 0, "chain3", ("s1", "over", "s1")), ("I", 0, "chain3", ("s2", "s1", "over"))):
                for fprof in (("s3",), ("s9",)):
                    for qarr in (1, 2, 3):
                        for nq in (1, 2):
                            for durt in ((14, 24) if q else (10, 14, 18, 24)):
                                combo = (batch,) + tuple(("B", 0, "single", fprof) for _ in range(nf)) + tuple(("Q", qarr, "single", ("s1",)) for _ in range(nq))
                                out.append(("priority", cfg, combo, 1, durt, dict(over=over), None))
        return out
    if kind == "dags":
        # every DAG shape through the real main loop with single-operator containers: sibling containers that
        # end in the same tick, several sinks, several roots
        cfgs = [("priority", (1, 10, 40, False, False)), ("priority", (2, 2, 25, False, False)), ("overbook", (1, 3, 8, True, True)),
                ("naive", (2, 2, 8, False, False)), ("starter", (3, 2, 8, False, False)), ("naive", (1, 2, 8, True, False)),
                ("priority", (1, 10, 40, True, False)), ("priority-pool", (2, 10, 40, True, False))]
        shapes = list(f5.SHAPES)
        profsets = (("s1",), ("s2", "s1"), ("s1", "s2"), ("s1", "over"))
        for tps in ((1,) if q else (1, 2)):
            wl = f5.workloads(tps, (("B", "Q"), shapes, profsets, (0, 1)), (("B",), shapes, (("s1",), ("s2", "s1")), (0, 1)) if not q else (("B",), ("fork", "join", "diamond", "single"), (("s1",), ("s2", "s1")), (0, 1)), None)
            for algo, cfg in cfgs:
                over = (max(1, int(cfg[2] / 10)) + 0.5) if algo.startswith("priority") else 5.0
                for combo in wl:
                    out.append((algo, cfg, combo, tps, 24, dict(over=over), None))
        return out
    if kind == "recount":
        for tps in ((1, 2) if q else (1, 2, 10)):
            for durt in (0, 1, 8, 20):      # duration in ticks
                pr = ("Q", "I", "B")
                arrs = (None, 0, 1, 3, 25)
                per1 = (pr, ("single", "chain2", "chain3", "fork"), (("s1",), ("s2", "s1"), ("s1", "over"), ("huge",)), (0, 1, 3, 25))
                per2 = (pr, ("single", "chain2"), (("s1",), ("s1", "over"), ("huge",)), (0, 1, 3) if q else (0, 1, 3, 25))
                per3 = (("B", "Q"), ("single",), (("s1",), ("huge",), ("over",)), (0, 1)) if q else (pr, ("single", "chain2"), (("s1",), ("over",), ("huge",)), (0, 1))
                wl = [()] + f5.workloads(tps, per1, per2, per3)
                for algo, cfg in algos:
                    over = (max(1, int(cfg[2] / 10)) + 0.5) if algo.startswith("priority") else 5.0
                    for combo in wl:
                        out.append((algo, cfg, combo, tps, durt, dict(over=over), None))
    elif kind == "uncontended":
        # one chain, ample memory, const scaling: latency = sum of operator ticks, under every scheduler
        for tps in (1, 2, 4):
            for algo, cfg in algos:
                for shape in ("single", "chain2", "chain3"):
                    for profs in (("s1",), ("s2",), ("s3", "s1"), ("s1", "s2", "s3"), ("io2",), ("c1io1",), ("s1", "io2", "c1io1"), ("z", "io2")):
                        for arr in (0, 2):
                            for pr in ("Q", "I", "B"):
                                combo = ((pr, arr, shape, profs),)
                                need = sum({"s1": 1, "s2": 2, "s3": 3, "io2": 2, "c1io1": 2, "z": 1}[profs[i % len(profs)]] for i in range(len(f5.SHAPES[shape])))
                                out.append((algo, cfg, combo, tps, arr + need + 3, dict(small=0.25), need))
            # two independent branches r1 -> x, r2 -> y under schedulers that run ready operators side by side: the
            # pipeline needs its longest branch, whichever branch gets ready first
            T = {"s1": 1, "s2": 2, "s3": 3}
            for algo, cfg in (("priority", (1, 10, 40, False, False)), ("overbook", (1, 4, 8, True, True)), ("overbook", (2, 2, 8, True, True))):
                for profs in (("s3", "s1", "s1", "s3"), ("s1", "s3", "s3", "s1"), ("s3", "s1", "s2", "s1"), ("s1", "s2", "s1", "s3"), ("s2", "s1", "s1", "s1")):
                    for pr in ("Q", "B"):
                        need = max(T[profs[0]] + T[profs[2]], T[profs[1]] + T[profs[3]])
                        out.append((algo, cfg, ((pr, 0, "twobranch", profs),), tps, need + 3, dict(small=0.25), need))
    return out


def triples():
    """all 66 probability triples on the 0.1 grid, written as the decimals a user would type"""
    out = []
    for a in range(11):
        for b in range(11 - a):
            c = 10 - a - b
            out.append((a / 10, b / 10, c / 10))
    return out


def gen_space(tier):
    """configuration grid for runs with the real workload generator (C08)"""
    q = tier == "quick"
    out = []
    scheds = [("naive", False), ("priority", False), ("priority-pool", False), ("overbook", True), ("starter", False)]

    def add(algo, oc, pools, cpus, ram, multi, tps, duration, seed, probs=(0.3, 0.1, 0.6), wait=1.0, npipe=2, nops=3):
        if algo == "priority-pool":
            pools = 2
        out.append(("gen", dict(scheduler=algo, overcommit=oc, pools=pools, cpus=cpus, ram=ram, multi=multi, tps=tps, duration=duration,
                                extra_params=dict(random_seed=seed, interactive_prob=probs[0], query_prob=probs[1], batch_prob=probs[2],
                                                  waiting_seconds_mean=wait, num_pipelines=npipe, num_operators=nops))))
    # G1: every probability triple
    for algo, oc in scheds:
        for tr in triples():
            add(algo, oc, 2, 8, 64, True, 10, 5, 0, probs=tr)
    # G2: pool counts and sizes incl. 1 CPU and sub-GB RAM, both container modes
    for algo, oc in scheds:
        for pools in (1, 2, 3):
            for cpus in (1, 2, 4, 64):
                for ram in (0.5, 1, 8, 256):
                    for multi in (True, False):
                        for seed in ((0,) if q else (0, 1, 2)):
                            if algo == "priority-pool" and pools != 2:
                                continue
                            add(algo, oc, pools, cpus, ram, multi, 10, 12, seed)
    # G3: durations (incl. shorter than a tick) x tick rates
    for algo, oc in scheds:
        for tps in (1, 2, 10, 100, 1000, 100000):
            for dur in ("0.4t", "1t", "10t", "60s"):
                if dur == "60s" and (tps > (10 if q else 100)):
                    continue
                duration = {"0.4t": 0.4 / tps, "1t": 1.0 / tps, "10t": 10.0 / tps, "60s": 60}[dur]
                for seed in ((0,) if q else (0, 1)):
                    add(algo, oc, 2, 64, 256, True, tps, duration, seed, wait=(10.0 if dur == "60s" else 2.0 / tps), npipe=4, nops=5)
    # G4: workload shape parameters (pipelines of one operator, many pipelines per event, long chains), short gaps
    for algo, oc in scheds:
        for nops in (1, 2, 8):
            for npipe in (1, 3, 6):
                for seed in ((0, 1) if q else (0, 1, 2, 3, 4, 5)):
                    for multi in (True, False):
                        if algo == "priority-pool" and not multi:
                            continue
                        add(algo, oc, 2, 8, 64, multi, 10, 4, seed, wait=0.3, npipe=npipe, nops=nops)
    return out


def build(item):
    if item[0] == "gen":
        d = dict(item[1])
        d["name"] = f"f6-gen-{d['scheduler']}-p{d['pools']}c{d['cpus']}r{d['ram']}m{int(d['multi'])}t{d['tps']}"
        d["pipelines"] = None
        d["uncontended"] = None
        return d
    algo, cfg, combo, tps, durt, kw, need = item
    pools, cpus, ram, multi, oc = cfg
    pipes = [f5.pipeline(pr, ar, sh, pf, tps, **kw) for pr, ar, sh, pf in combo]
    return dict(name=f"f6-{algo}-p{pools}c{cpus}r{ram}m{int(multi)}t{tps}d{durt}", scheduler=algo, tps=tps, pools=pools, cpus=cpus, ram=ram,
                overcommit=oc, multi=multi, duration=(durt if durt else 0.4) / tps, pipelines=pipes, uncontended=need)


def work(chunk):
    tot = f1.new_acc()

    class _Ch:
        choices = []
    for item in chunk:
        sc = build(item)
        w, r, stats, exc = run(sc)
        s = f1.summarize(sc, _Ch, w)
        done = 0 if stats is None else stats.pipelines_all.completion_count
        s["outcomes"] = {(sc["scheduler"], sc["tps"], None if stats is None else stats.pipelines_created, done, None if stats is None else stats.failures, type(exc).__name__ if exc else None)}
        s["mm"] = [(t, k, site, d, dict(f6item=item)) for (t, k, site, d, _) in s["mm"]]
        f1.merge(tot, s)
    return tot
