"""F0: the lifecycle object alone. Explicit-state BFS over the REAL PipelineRuntimeStatus
(state = operator states + histogram, rebuilt by replaying the shortest request history)
plus a stateless enumeration of all request sequences to a fixed depth (no merging)."""
import itertools, collections
from .. import boot
from ..refmodel import LIFECYCLE, STATES, P, A, R, S, C, F
from ..report import Violation

boot.load()
from eudoxia.workload.pipeline import Pipeline, Segment
from eudoxia.workload.runtime_status import OperatorState
from eudoxia.utils import Priority

OS = {s.value: s for s in OperatorState}


def dags(nmax):
    """Every DAG on <= nmax operators whose insertion order is topological:
    node i takes any subset of the earlier nodes as parents."""
    out = []
    for n in range(1, nmax + 1):
        subsets = [[list(c) for k in range(i + 1) for c in itertools.combinations(range(i), k)] for i in range(n)]
        for combo in itertools.product(*subsets):
            out.append([list(c) for c in combo])
    return out


def build(parents):
    boot.fresh_execution()
    p = Pipeline("p", Priority.BATCH_PIPELINE)
    ops = []
    for par in parents:
        op = p.new_operator([ops[j] for j in par] or None)
        op.add_segment(Segment(baseline_cpu_seconds=1, storage_read_gb=0))
        ops.append(op)
    return p, ops


def key_of(p, ops):
    st = p.runtime_status()
    return (tuple(st.operator_states[o].value for o in ops), tuple(st.state_counts[OS[s]] for s in STATES))


def apply_request(p, ops, parents, i, target, via_check=False):
    """Issue one request on the real object and judge it against the documented machine.
    Returns (accepted, problems)."""
    st = p.runtime_status()
    probs = []
    before = key_of(p, ops)
    cur = before[0][i]
    legal = target in LIFECYCLE[cur]
    if legal and target == R:
        legal = all(before[0][j] == C for j in parents[i])
    # check_transition must agree and must not mutate
    try:
        ok, why = st.check_transition(ops[i], OS[target])
    except Exception as e:
        ok, why = None, repr(e)
    if key_of(p, ops) != before:
        probs.append(("check-mutated", f"check_transition changed the object: {before} -> {key_of(p, ops)}"))
    if ok is not None and bool(ok) != legal:
        probs.append(("check-disagrees", f"check_transition({i},{cur}->{target}) = {ok}, documented machine says {legal}"))
    accepted = True
    try:
        ops[i].transition(OS[target])
    except Exception as e:
        accepted = False
    after = key_of(p, ops)
    if accepted != legal:
        probs.append(("illegal-accepted" if accepted else "legal-refused",
                      f"request op{i}: {cur}->{target} with states {before[0]} was {'accepted' if accepted else 'refused'}"))
    if accepted:
        exp_states = list(before[0])
        exp_states[i] = target
        exp_counts = tuple(exp_states.count(s) for s in STATES)
        if after != (tuple(exp_states), exp_counts):
            probs.append(("bad-update", f"after accepted op{i}: {cur}->{target}: got {after}, expected {(tuple(exp_states), exp_counts)}"))
    else:
        if after != before:
            probs.append(("refused-mutated", f"refused op{i}: {cur}->{target} changed {before} -> {after}"))
    # derived views
    if st.is_pipeline_successful() != all(s == C for s in after[0]):
        probs.append(("success-flag", f"is_pipeline_successful={st.is_pipeline_successful()} for {after[0]}"))
    if after[1] != tuple(list(after[0]).count(s) for s in STATES):
        probs.append(("histogram", f"histogram {after[1]} for {after[0]}"))
    ready = st.get_ops([OS[P], OS[F]], require_parents_complete=True)
    want = [ops[j] for j in range(len(ops)) if after[0][j] in (P, F) and all(after[0][k] == C for k in parents[j])]
    pos = {o: k for k, o in enumerate(ready)}
    if len(pos) != len(ready) or set(ready) != set(want):
        probs.append(("ready-filter", f"ready operators {[ops.index(o) for o in ready]} expected {[ops.index(o) for o in want]} in {after[0]}"))
    return accepted, probs


def replay_history(parents, hist):
    p, ops = build(parents)
    p.runtime_status()
    for i, t in hist:
        try:
            ops[i].transition(OS[t])
        except Exception:
            pass
    return p, ops


def bfs(parents):
    """Complete reachable state space of one DAG's lifecycle object."""
    n = len(parents)
    p, ops = build(parents)
    p.runtime_status()
    init = key_of(p, ops)
    seen = {init: []}
    frontier = collections.deque([init])
    transitions = 0
    viol = []
    edges = set()
    limit = 6 ** n   # the documented machine has at most 6^n (state vector) x 1 (derived histogram) states
    while frontier:
        if len(seen) > limit:
            viol.append(Violation("lifecycle", "state-space-exceeds-machine", f"more than {limit} distinct (states, histogram) pairs reachable, e.g. {list(seen)[-1]}",
                                  dict(parents=parents), seen[list(seen)[-1]], family="F0"))
            break
        k = frontier.popleft()
        hist = seen[k]
        for i in range(n):
            for t in STATES:
                p, ops = replay_history(parents, hist)
                if key_of(p, ops) != k:
                    viol.append(Violation("F0-bfs", "replay-divergence", f"{hist} gave {key_of(p, ops)} not {k}",
                                          dict(parents=parents), hist, family="F0"))
                    continue
                acc, probs = apply_request(p, ops, parents, i, t)
                transitions += 1
                for kind, d in probs:
                    viol.append(Violation("lifecycle", kind, d, dict(parents=parents), hist + [(i, t)], family="F0"))
                nk = key_of(p, ops)
                if acc:
                    edges.add((k[0][i], t))
                if nk not in seen:
                    seen[nk] = hist + [(i, t)]
                    frontier.append(nk)
    return dict(states=set(seen), transitions=transitions, violations=viol, edges=edges)


def bfs_hist(parents, edges=False):
    """(edges=True: the set of state CHANGES each operator has made instead of the set of states it has been in.)
    The same search with a history-sensitive key: (visible state, for every operator the SET of states it has been in).
    The plain BFS is exhaustive only if the object's answers depend on nothing but the visible state; this one also
    separates histories that end in the same visible state after different pasts (an operator that failed while running
    vs. one that failed before it started, one that has been suspended before, ...), so a hidden memo, cache or
    'seen before' set inside the object cannot hide behind state merging."""
    n = len(parents)
    p, ops = build(parents)
    p.runtime_status()
    k0 = key_of(p, ops)
    init = (k0, tuple(frozenset() if edges else frozenset([s]) for s in k0[0]))
    seen = {init: []}
    frontier = collections.deque([init])
    transitions = 0
    viol = []
    while frontier:
        k = frontier.popleft()
        hist = seen[k]
        for i in range(n):
            for t in STATES:
                p, ops = replay_history(parents, hist)
                if key_of(p, ops) != k[0]:
                    viol.append(Violation("F0-bfs", "replay-divergence", f"{hist} gave {key_of(p, ops)} not {k[0]}", dict(parents=parents), hist, family="F0"))
                    continue
                acc, probs = apply_request(p, ops, parents, i, t)
                transitions += 1
                for kind, d in probs:
                    viol.append(Violation("lifecycle", kind, d, dict(parents=parents), hist + [(i, t)], family="F0"))
                if probs:
                    continue   # do not search on from a state the object should not be in
                nv = key_of(p, ops)
                if edges:
                    visited = tuple((v | {(k[0][0][j], nv[0][j])}) if k[0][0][j] != nv[0][j] else v for j, v in enumerate(k[1]))
                else:
                    visited = tuple(v | {nv[0][j]} for j, v in enumerate(k[1]))
                nk = (nv, visited)
                if nk not in seen:
                    seen[nk] = hist + [(i, t)]
                    frontier.append(nk)
    return dict(states=set(seen), transitions=transitions, violations=viol, max_history=max(len(h) for h in seen.values()))


def grow_histories(parents, depth):
    """Request sequences interleaved with ONE 'grow' event (a new operator is added to the pipeline, as an
    incremental DAG builder would do): the operators that existed before keep their states and counts."""
    n = len(parents)
    reqs = [(i, t) for i in range(n) for t in STATES]
    viol = []
    execs = 0

    def rec(hist):
        nonlocal execs
        # grow now, then check
        p, ops = replay_history(parents, hist)
        before = key_of(p, ops)
        for gpar in ([], [0]):
            p, ops = replay_history(parents, hist)
            try:
                p.new_operator([ops[j] for j in gpar] or None)
            except Exception as e:
                continue
            execs += 1
            try:
                st = p.runtime_status()
                after_states = tuple(st.operator_states[o].value for o in ops)
                after_counts = tuple(st.state_counts[OS[s]] for s in STATES)
            except Exception as e:
                viol.append(Violation("lifecycle", "grow-breaks-status", f"after adding an operator: {type(e).__name__}: {e}", dict(parents=parents, grow=gpar), list(hist), family="F0g"))
                continue
            if after_states != before[0]:
                viol.append(Violation("lifecycle", "state-changed-without-request", f"adding an operator changed existing operator states {before[0]} -> {after_states}",
                                      dict(parents=parents, grow=gpar), list(hist), family="F0g"))
            else:
                extra = [a - b for a, b in zip(after_counts, before[1])]
                if any(x != 0 for k, x in enumerate(extra) if STATES[k] != P) or extra[STATES.index(P)] not in (0, 1):
                    viol.append(Violation("lifecycle", "counts-changed-without-request", f"adding an operator changed the histogram {before[1]} -> {after_counts}",
                                          dict(parents=parents, grow=gpar), list(hist), family="F0g"))
        if len(hist) == depth:
            return
        for r in reqs:
            p, ops = replay_history(parents, hist)
            k0 = key_of(p, ops)
            try:
                ops[r[0]].transition(OS[r[1]])
            except Exception:
                continue      # refused requests do not lead to new states
            rec(hist + [r])

    rec([])
    return dict(violations=viol, executions=execs)


def stateless(parents, depth):
    """All request sequences of exactly <= depth requests, no merging."""
    n = len(parents)
    reqs = [(i, t) for i in range(n) for t in STATES]
    viol = []
    execs = 0
    transitions = 0
    states = set()

    def rec(hist):
        nonlocal execs, transitions
        if len(hist) == depth:
            execs += 1
            return
        for r in reqs:
            p, ops = replay_history(parents, hist)
            acc, probs = apply_request(p, ops, parents, r[0], r[1])
            transitions += 1
            for kind, d in probs:
                viol.append(Violation("lifecycle", kind, d, dict(parents=parents), hist + [r], family="F0"))
            states.add(key_of(p, ops))
            rec(hist + [r])

    rec([])
    return dict(states=states, transitions=transitions, violations=viol, executions=execs)
