"""F1: executor command sequences. Each tick the explorer picks a command batch from a
state-dependent menu (index 0 = what a plain default policy would do); every other index is
a deviation: odd sizes, oversubscription, wrong pools, dependency violations, suspensions of
anything at any time. The real Executor runs in lock-step with the reference executor."""
from ..world import World, Suspend, C, P, F, A, R
from ..explorer import Chooser, explore_subtree, children, pmap


def assignable(w, ready_only):
    out = []
    for p in w.pipelines:
        st = p.runtime_status()
        ops = [op for op, s in st.operator_states.items() if s.value in (P, F)]
        if ready_only:
            ops = [op for op in ops if all(par.state().value == C for par in op.parents)]
        if ops:
            out.append((p, ops))
    return out


def build_menu(w, sc):
    ex = w.executor
    m = []
    r0 = sc.get("r0", 2)
    cands_all = assignable(w, False)
    cands_ready = assignable(w, True)
    # 0: default policy = first pipeline with work -> pool 0, 1 cpu, r0 GB, all its assignable ops
    # (one ready op when containers are single-operator)
    p0 = ex.pools[0]
    default = ("none",)
    if cands_ready and p0.avail_cpu_pool >= 1 and (p0.avail_ram_pool >= r0 or w.overcommit):
        pl, rops = cands_ready[0]
        if w.multi:
            allops = [o for o in pl.runtime_status().operator_states if o.state().value in (P, F)]
            default = ("assign", [allops], [(0, 1, r0)])
        else:
            default = ("assign", [rops[:1]], [(0, 1, r0)])
    m.append(default)
    if default != ("none",):
        m.append(("none",))
    # assignments with odd sizes / pools
    sizes = lambda pool: [(1, r0), (pool.avail_cpu_pool, pool.avail_ram_pool), (pool.avail_cpu_pool + 1, r0), (1, pool.avail_ram_pool + 1), (1, 2 * r0),
                          (1.5, r0), (0.5, r0 / 2)]       # fractional CPUs / RAM are legal sizes
    opsets = []
    if cands_ready:
        opsets.append(cands_ready[0][1][:1])
    if cands_all and (not cands_ready or cands_all[0][1] != cands_ready[0][1][:1]):
        opsets.append(cands_all[0][1])
    if len(cands_ready) > 1:
        opsets.append(cands_ready[1][1][:1])
    if w.multi and cands_all and len(cands_all[0][1]) > 2:
        opsets.append(cands_all[0][1][:2])       # a proper prefix: the rest of the pipeline stays outside the container
    for ops in opsets:
        for pid in range(w.npools):
            for cpu, ram in sizes(ex.pools[pid]):
                if cpu > 0 and ram > 0:
                    item = ("assign", [ops], [(pid, cpu, ram)])
                    if item != default:
                        m.append(item)
        m.append(("assign", [ops], [(w.npools, 1, r0)]))       # pool that does not exist
        m.append(("assign", [ops], [(-1, 1, r0)]))             # ... and the usual "no pool" sentinel
    # two assignments to one pool that fit one by one but not together
    flat = [o for _, ops in cands_ready for o in ops]
    if len(flat) >= 2:
        for pid in range(w.npools):
            pool = ex.pools[pid]
            if pool.avail_cpu_pool >= 1 and pool.avail_ram_pool > 0:
                m.append(("assign", [[flat[0]], [flat[1]]], [(pid, pool.avail_cpu_pool, 1), (pid, 1, 1)]))
                if pool.avail_cpu_pool >= 2:
                    half = pool.avail_cpu_pool / 2 + 0.25
                    m.append(("assign", [[flat[0]], [flat[1]]], [(pid, half, 1), (pid, pool.avail_cpu_pool - half, 1)]))   # fractional sizes that fit exactly
                    m.append(("assign", [[flat[0]], [flat[1]]], [(pid, 1, pool.avail_ram_pool), (pid, 1, 1)]))
                    m.append(("assign", [[flat[0]], [flat[1]]], [(pid, 1, 1), (pid, 1, 1)]))
    # sizes that are not sizes: zero or negative CPU / RAM, alone and as the partner of an over-sized assignment whose
    # excess it cancels in the batch total
    if opsets:
        for cpu, ram in ((1, 0), (1, -r0), (0, r0), (-1, r0)):
            m.append(("assign", [opsets[0]], [(0, cpu, ram)]))
    if len(flat) >= 2:
        pool = ex.pools[0]
        if pool.avail_cpu_pool >= 2:
            m.append(("assign", [[flat[0]], [flat[1]]], [(0, 1, pool.max_ram_pool + r0), (0, 1, -(pool.max_ram_pool - pool.avail_ram_pool) - r0)]))
            m.append(("assign", [[flat[0]], [flat[1]]], [(0, pool.max_cpu_pool + 1, r0), (0, -1 - (pool.max_cpu_pool - pool.avail_cpu_pool), r0)]))
    # dependency / lifecycle violations
    running_now = [c for p in ex.pools for c in p.active_containers]
    for p in w.pipelines:
        ops = list(p.runtime_status().operator_states)
        for op in ops:
            if op.parents and op.state().value in (P, F) and any(par.state().value != C for par in op.parents):
                # child alone while a parent is unfinished in ANY state (pending, failed, assigned, running, suspending)
                m.append(("assign", [[op]], [(0, 1, r0)]))
                if running_now:
                    c0 = running_now[0]
                    m.append(("suspend+assign", c0.container_id, c0.pool_id, [op], (c0.pool_id, 1, r0)))
                others = [q for q in ops if q is not op and q not in op.parents and q.state().value in (P, F)
                          and all(pp.state().value == C for pp in q.parents)]
                if others and w.multi:
                    m.append(("assign", [[op, others[0]]], [(0, 1, r0)]))              # child (parent unfinished) packed in front of a ready operator
                free = [q for q in op.parents if q.state().value in (P, F)]
                if free:
                    par = free[0]
                    m.append(("assign", [[op, par]], [(0, 1, r0)]))                    # child before parent in one container
                    m.append(("assign", [[op], [par]], [(0, 1, r0), (0, 1, r0)]))      # child's container listed first
                break
        for st_ in (A, R, C, "suspending"):
            busy = [op for op in ops if op.state().value == st_]
            if busy:
                m.append(("assign", [[busy[0]]], [(0, 1, r0)]))                    # already assigned / running / completed / suspending
                free_ = [q for q in ops if q.state().value in (P, F) and all(pp.state().value == C for pp in q.parents)]
                if free_ and w.multi:
                    m.append(("assign", [[free_[0], busy[0]]], [(0, 1, r0)]))      # ... behind a perfectly assignable operator
    # suspensions of anything ever seen
    cids = list(w.key_of_cid)[-4:]
    where = {}
    for p in ex.pools:
        for c in list(p.active_containers) + list(p.suspending_containers) + list(p.suspended_containers):
            where[c.container_id] = p.pool_id
    for cid in cids:
        m.append(("suspend", cid, where.get(cid, 0)))
    m.append(("suspend", "c999", 0))
    running = [c for p in ex.pools for c in p.active_containers]
    if len(running) > 1:
        m.append(("suspend-many", [(c.container_id, c.pool_id) for c in running]))     # every running container at once
    if running:
        c = running[0]
        m.append(("suspend", c.container_id, w.npools))                            # pool that does not exist
        m.append(("suspend", c.container_id, -1))
        if w.npools > 1:
            m.append(("suspend", c.container_id, (c.pool_id + 1) % w.npools))      # wrong pool
        if cands_ready:
            m.append(("suspend+assign", c.container_id, c.pool_id, cands_ready[0][1][:1], (c.pool_id, 1, r0)))
    return m


def describe(w, item):
    if item[0] == "assign":
        return ["assign", [[w.name(o) for o in ops] for ops in item[1]], item[2]]
    if item[0] == "suspend+assign":
        return ["suspend+assign", item[1], item[2], [w.name(o) for o in item[3]], item[4]]
    return list(item)


def realize(w, item):
    sus, asg = [], []
    if item[0] == "assign":
        for ops, (pid, cpu, ram) in zip(item[1], item[2]):
            a = w.make_assignment(ops, cpu, ram, pid)
            if a is None:
                return None
            asg.append(a)
    elif item[0] == "suspend":
        sus.append(Suspend(item[1], item[2]))
    elif item[0] == "suspend-many":
        for cid, pid in item[1]:
            sus.append(Suspend(cid, pid))
    elif item[0] == "suspend+assign":
        sus.append(Suspend(item[1], item[2]))
        pid, cpu, ram = item[4]
        a = w.make_assignment(item[3], cpu, ram, pid)
        if a is None:
            return None
        asg.append(a)
    return sus, asg


def run(sc, ch, trace=None):
    w = World(sc)
    try:
        arr = {}
        for i, ps in enumerate(sc["pipelines"]):
            arr.setdefault(ps.get("arrival", 0), []).append(i)
        for t in range(sc["horizon"]):
            w.arrive(arr.get(t, []))
            w.boundary_checks()
            menu = build_menu(w, sc)
            k = ch.choose(len(menu), t)
            if trace is not None:
                trace.append(dict(tick=t, command=describe(w, menu[k]), menu_size=len(menu)))
            got = realize(w, menu[k])
            if got is None or w.ended:
                break
            w.boundary_checks()
            res = w.exec_phase(*got)
            if trace is not None:
                trace[-1]["results"] = None if res is None else [(r.container_id, r.error) for r in res]
                trace[-1]["exception"] = None if w.exception is None else f"{type(w.exception[2]).__name__}: {w.exception[2]} @ {w.exception[3]}"
                trace[-1]["pools"] = [(p.avail_cpu_pool, p.avail_ram_pool, p.consumed_ram_gb, [c.container_id for c in p.active_containers], [c.container_id for c in p.suspending_containers]) for p in w.executor.pools]
                trace[-1]["ops"] = {w.name(o): s.value for p in w.pipelines for o, s in p.runtime_status().operator_states.items()}
            if w.ended:
                break
            w.boundary_checks()
    finally:
        w.close()
    return w


def seg(ticks, tps, mem=None, read_ticks=0):
    """helper: a segment of `ticks` CPU ticks (+ read_ticks I/O ticks) at tick rate tps."""
    return dict(cpu=ticks / tps, scaling="const", mem=mem, read=20.0 * read_ticks / tps)


def scenarios(tier):
    out = []
    for tps in ([1, 2] if tier == "quick" else [1, 2, 4]):
        for oc in (False, True):
            # A: chain of two 2-tick operators + a single over-sized operator, one pool
            out.append(dict(name=f"A-tps{tps}-oc{int(oc)}", tps=tps, pools=1, cpus=2, ram=8, overcommit=oc, multi=True, r0=2,
                            horizon=7 if tier == "quick" else 9,
                            pipelines=[dict(prio="B", arrival=0, parents=[[], [0]], ops=[[seg(2, tps, 1)], [seg(1, tps, 1)]]),
                                       dict(prio="Q", arrival=1, parents=[[]], ops=[[seg(1, tps, 3)]])]))
        # B: diamond, single-operator containers, two pools
        out.append(dict(name=f"B-tps{tps}", tps=tps, pools=2, cpus=2, ram=4, overcommit=False, multi=False, r0=2,
                        horizon=7 if tier == "quick" else 9,
                        pipelines=[dict(prio="I", arrival=0, parents=[[], [0], [0], [1, 2]],
                                        ops=[[seg(1, tps, 1)], [seg(2, tps, 1)], [seg(1, tps, 1)], [seg(1, tps, 1)]])]))
    # C: growing memory with overcommit: pool-level kills are reachable
    for tps in ([2] if tier == "quick" else [2, 4]):
        g = 20.0 / tps
        out.append(dict(name=f"C-tps{tps}", tps=tps, pools=1, cpus=3, ram=2 * g, overcommit=True, multi=True, r0=2 * g,
                        horizon=6 if tier == "quick" else 8,
                        pipelines=[dict(prio="B", arrival=0, parents=[[], [0]], ops=[[seg(1, tps, None, 2)], [seg(1, tps, 1)]]),
                                   dict(prio="B", arrival=0, parents=[[]], ops=[[seg(1, tps, None, 1)]]),
                                   dict(prio="I", arrival=1, parents=[[]], ops=[[seg(2, tps, g)]])]))
    # E/F: branching DAGs in multi-operator containers (fan-out, fan-in, diamond) with an over-sized operator
    for tps in ([1] if tier == "quick" else [1, 2]):
        out.append(dict(name=f"E-diamond-tps{tps}", tps=tps, pools=1, cpus=2, ram=8, overcommit=False, multi=True, r0=2,
                        horizon=6 if tier == "quick" else 8,
                        pipelines=[dict(prio="B", arrival=0, parents=[[], [0], [0], [1, 2]],
                                        ops=[[seg(1, tps, 1)], [seg(1, tps, 3)], [seg(1, tps, 1)], [seg(1, tps, 1)]])]))
        out.append(dict(name=f"F-join-tps{tps}", tps=tps, pools=2, cpus=2, ram=8, overcommit=False, multi=True, r0=2,
                        horizon=6 if tier == "quick" else 8,
                        pipelines=[dict(prio="I", arrival=0, parents=[[], [], [0, 1]],
                                        ops=[[seg(2, tps, 1)], [seg(1, tps, 1)], [seg(1, tps, 1)]]),
                                   dict(prio="B", arrival=1, parents=[[], [0], [0]],
                                        ops=[[seg(1, tps, 1)], [seg(1, tps, 1)], [seg(1, tps, 3)]])]))
    # G: chain of three, multi-operator containers: prefix container [a,b], suspension, child c outside
    out.append(dict(name="G-chain3-tps2", tps=2, pools=1, cpus=3, ram=64, overcommit=False, multi=True, r0=32,
                    horizon=6 if tier == "quick" else 8,
                    pipelines=[dict(prio="B", arrival=0, parents=[[], [0], [1]], ops=[[seg(1, 2, 1)], [seg(2, 2, 1)], [seg(1, 2, 1)]])]))
    # H: a zero-tick child (a -> b) next to an independent root c: packings that would start b early
    out.append(dict(name="H-zero-tick-child", tps=1, pools=1, cpus=3, ram=8, overcommit=False, multi=True, r0=2,
                    horizon=5 if tier == "quick" else 6,
                    pipelines=[dict(prio="B", arrival=0, parents=[[], [0], []], ops=[[seg(2, 1, 1)], [dict(cpu=0.0, scaling="const", mem=1, read=0)], [seg(1, 1, 1)]])]))
    # I: a root whose LAST segment is shorter than a tick (it completes in the last tick of its first segment), an
    # independent root and a child: packings [a, b], [a, b, c], [a] ... in multi-operator containers
    out.append(dict(name="I-trailing-zero-tick-segment", tps=1, pools=1, cpus=3, ram=8, overcommit=False, multi=True, r0=2,
                    horizon=5 if tier == "quick" else 6,
                    pipelines=[dict(prio="B", arrival=0, parents=[[], [], [0]],
                                    ops=[[seg(2, 1, 1), dict(cpu=0.4, scaling="const", mem=1, read=0)], [seg(1, 1, 1)], [seg(1, 1, 1)]])]))
    # D: large allocations so that write-outs take several ticks; tiny ones so they take 0/1
    out.append(dict(name="D-long-writeout", tps=2, pools=1, cpus=4, ram=64, overcommit=False, multi=True, r0=32,
                    horizon=8 if tier == "quick" else 10,
                    pipelines=[dict(prio="B", arrival=0, parents=[[], [0], [1]], ops=[[seg(1, 2, 1)], [seg(1, 2, 1)], [seg(1, 2, 1)]]),
                               dict(prio="Q", arrival=2, parents=[[]], ops=[[seg(1, 2, 1)]])]))
    return out


def explore(sc, bound, cap=None):
    """Exhaustive exploration of one scenario up to `bound` deviations; parallel over the
    first-level alternatives. Returns merged summary."""
    root = Chooser([])
    w0 = run(sc, root)
    first = children(root, 0, bound)
    summaries = [summarize(sc, root, w0)]

    def sub(prefix):
        acc = new_acc()
        def on_exec(ch, w):
            merge(acc, summarize(sc, ch, w))
        n, capped = explore_subtree(lambda ch: run(sc, ch), prefix, bound, on_exec, cap)
        acc["capped"] = capped
        return acc

    parts = pmap(sub, first, chunks=1)
    total = new_acc()
    for s in summaries + parts:
        merge(total, s)
    return total


def new_acc():
    return dict(execs=0, transitions=0, fps=set(), mm=[], outcomes=set(), stats={}, capped=False, ambiguous=0, maxdepth=0)


def summarize(sc, ch, w):
    a = new_acc()
    a["execs"] = 1
    a["transitions"] = w.transitions
    a["fps"] = set(w.fps)
    a["maxdepth"] = len(ch.choices)
    a["ambiguous"] = 1 if getattr(w, "ambiguous", False) else 0
    a["mm"] = [(sorted(m.tags), m.kind, m.site, m.detail, list(ch.choices)) for m in w.mm]
    exc = None if w.exception is None else (w.exception[0], type(w.exception[2]).__name__, w.exception[3])
    a["outcomes"] = {(tuple(sorted(w.stats.items())), exc)}
    if w.model is not None:
        w.stats["susp_done"] = w.model.counts["suspended"]
    a["stats"] = dict(w.stats)
    return a


def merge(t, s):
    t["execs"] += s["execs"]
    t["transitions"] += s["transitions"]
    t["fps"] |= s["fps"]
    t["outcomes"] |= s["outcomes"]
    t["capped"] = t["capped"] or s["capped"]
    t["ambiguous"] += s["ambiguous"]
    t["maxdepth"] = max(t["maxdepth"], s["maxdepth"])
    # keep the shortest witness per (tags, kind, site)
    t["mm"].extend(s["mm"])
    if len(t["mm"]) > 400:
        best = {}
        cnt = {}
        for m in t["mm"]:
            k = (tuple(m[0]), m[1], m[2])
            cnt[k] = cnt.get(k, 0) + 1
            if k not in best or len(m[4]) < len(best[k][4]):
                best[k] = m
        t["mm"] = list(best.values())
    for k, v in s["stats"].items():
        t["stats"][k] = t["stats"].get(k, 0) + v
