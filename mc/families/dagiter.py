"""DAG iteration: every DAG whose insertion order is topological on <= n nodes, built with the
real Pipeline.new_operator; iteration must be a permutation with parents before children."""
from .. import boot
from . import f0

boot.load()
from eudoxia.workload.runtime_status import OperatorState


def check_dag(parents):
    p, ops = f0.build(parents)
    probs = []
    idx = {op: i for i, op in enumerate(ops)}

    def topo(seq, what):
        ids = [idx.get(o) for o in seq]
        if sorted(ids, key=lambda x: (x is None, x)) != list(range(len(ops))):
            probs.append(("not-a-permutation", f"{what}: visited {ids} for {len(ops)} operators"))
            return
        pos = {i: k for k, i in enumerate(ids)}
        for i, par in enumerate(parents):
            for j in par:
                if pos[j] > pos[i]:
                    probs.append(("child-before-parent", f"{what}: operator {i} visited before its parent {j}: order {ids}"))
    # iteration interleaved with construction: after every new_operator the pipeline built so far
    # must iterate as a permutation of its operators so far (a builder may look at a DAG while it grows)
    from eudoxia.workload.pipeline import Pipeline as _P, Segment as _S
    from eudoxia.utils import Priority as _Pr
    boot.fresh_execution()
    g = _P("g", _Pr.BATCH_PIPELINE)
    gops = []
    for k, par in enumerate(parents):
        o = g.new_operator([gops[j] for j in par] or None)
        o.add_segment(_S(baseline_cpu_seconds=1, storage_read_gb=0))
        gops.append(o)
        seen = [gops.index(x) if x in gops else None for x in g.values]
        if sorted(seen, key=lambda x: (x is None, x)) != list(range(k + 1)):
            probs.append(("stale-iteration-while-growing", f"after adding operator {k}: iteration visited {seen}, the pipeline has operators 0..{k}"))
            break
        if len(g.values) != k + 1:
            probs.append(("len", f"after adding operator {k}: len={len(g.values)}"))
            break
    first = list(p.values)
    topo(first, "first iteration")
    second = list(p.values)
    if [idx.get(o) for o in second] != [idx.get(o) for o in first]:
        probs.append(("iteration-not-repeatable", f"{[idx.get(o) for o in first]} then {[idx.get(o) for o in second]}"))
    # two interleaved iterators do not disturb each other
    it1 = iter(p.values)
    a = []
    b = []
    try:
        a.append(next(it1))
        it2 = iter(p.values)
        while True:
            moved = False
            for it, acc in ((it2, b), (it1, a)):
                try:
                    acc.append(next(it))
                    moved = True
                except StopIteration:
                    pass
            if not moved:
                break
    except StopIteration:
        pass
    topo(a, "interleaved iterator 1")
    topo(b, "interleaved iterator 2")
    if len(p.values) != len(ops):
        probs.append(("len", f"len={len(p.values)}"))
    # the listing used by schedulers (all states) is topological too
    st = p.runtime_status()
    topo(st.get_ops(list(OperatorState)), "get_ops(all states)")
    # with every proper prefix completed, the ready filter returns exactly the operators whose parents are done
    for k in range(len(first) if not probs else 0):
        done = set(first[:k])
        q, qops = f0.build(parents)
        qs = q.runtime_status()
        order = list(q.values)
        try:
            for o in order[:k]:
                o.transition(OperatorState.ASSIGNED)
                o.transition(OperatorState.RUNNING)
                o.transition(OperatorState.COMPLETED)
        except Exception as e:
            probs.append(("iteration-order-not-executable", f"running operators in iteration order failed at prefix {k}: {e}"))
            break
        qidx = {op: i for i, op in enumerate(qops)}
        comp = {qidx[o] for o in order[:k]}
        got = sorted(qidx[o] for o in qs.get_ops([OperatorState.PENDING, OperatorState.FAILED], require_parents_complete=True))
        want = sorted(i for i in range(len(qops)) if i not in comp and all(j in comp for j in parents[i]))
        if got != want:
            probs.append(("ready-filter", f"completed {sorted(comp)}: ready {got}, expected {want}"))
    return probs, tuple(idx.get(o) for o in first)


def work(chunk):
    out = dict(n=0, viol=[], orders=set(), steps=0)
    for parents in chunk:
        probs, order = check_dag(parents)
        out["n"] += 1
        out["steps"] += len(parents) * 4
        out["orders"].add((len(parents), order != tuple(range(len(parents)))))
        for kind, d in probs:
            out["viol"].append((kind, d, parents))
    return out
