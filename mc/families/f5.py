"""F5: shipped schedulers in lock-step. Real Scheduler(algo) + real Executor in the phase order
of run_simulator; what is enumerated is the scenario space (arrivals x priorities x DAG shapes x
profiles x pools x tick rates x container mode). All executor-side comparisons stay on."""
import itertools, os, sys, importlib, tempfile, shutil
from .. import boot
from ..world import World, site_of, C, P, F, A, R
from ..policy import PolicyMonitor, Round
from . import f1

boot.load()
from eudoxia.scheduler import Scheduler
from eudoxia.scheduler.decorators import SCHEDULING_ALGOS, INIT_ALGOS

_STARTER = None


def ensure_starter():
    """The starter scheduler exactly as `eudoxia init -s` writes it (real CLI entry point),
    imported once per process under a unique key."""
    global _STARTER
    if _STARTER is not None:
        return _STARTER
    key = "verifstarter"
    if key not in SCHEDULING_ALGOS:
        from eudoxia.__main__ import main as cli
        d = tempfile.mkdtemp(prefix="verif_starter_")
        try:
            devnull = open(os.devnull, "w")
            old = sys.stdout
            sys.stdout = devnull
            try:
                cli(["init", os.path.join(d, "sim.toml"), "-s", key])
            finally:
                sys.stdout = old
                devnull.close()
            sys.path.insert(0, d)
            try:
                importlib.import_module(key)
            finally:
                sys.path.remove(d)
        finally:
            shutil.rmtree(d, ignore_errors=True)
    _STARTER = key
    return key


def make_scheduler(w, sc):
    algo = sc["scheduler"]
    key = ensure_starter() if algo == "starter" else algo
    params = dict(multi_operator_containers=w.multi, allow_memory_overcommit=w.overcommit, ticks_per_second=w.tps,
                  num_pools=w.npools, cpus_per_pool=sc["cpus"], ram_gb_per_pool=sc["ram"], duration=sc["horizon"] / w.tps)
    return Scheduler(w.executor, scheduler_algo=key, **params)


def run(sc, trace=None):
    w = World(sc)
    pm = None
    try:
        try:
            sched = make_scheduler(w, sc)
        except Exception as e:
            w.flag({"C08"}, "scheduler-init-raised", f"{type(e).__name__}: {e}", site_of(e))
            return w
        pm = PolicyMonitor(w, sc["scheduler"])
        arr = {}
        for i, ps in enumerate(sc["pipelines"]):
            arr.setdefault(ps.get("arrival", 0), []).append(i)
        results = []
        for t in range(sc["horizon"]):
            new = w.arrive(arr.get(t, []))
            rd = Round(w, results, new)
            w.phase = "sched"
            try:
                sus, asg = sched.run_one_tick(results, new)
            except Exception as e:
                w.exception = ("sched", w.tick, e, site_of(e))
                w.flag({"C08"}, "scheduler-raised", f"tick {t}: {type(e).__name__}: {e}", site_of(e))
                break
            w.note_scheduler_assignments(asg)
            rd.done(w, sus, asg)
            pm.check(rd)
            if sc.get("inject_suspend_at") == t:
                # an outside actor (not the scheduler under test) suspends every container that is at a boundary
                from eudoxia.executor.assignment import Suspend as _Suspend
                sus = list(sus) + [_Suspend(c.container_id, p.pool_id) for p in w.executor.pools for c in p.active_containers if c.can_suspend_container()]
            w.boundary_checks()
            n_before = len(w.mm)
            results = w.exec_phase(sus, asg)
            if trace is not None:
                trace.append(dict(tick=t, arrived=[p.pipeline_id for p in new],
                                  assignments=[([w.name(o) for o in a.ops], a.cpu, a.ram, a.pool_id) for a in asg],
                                  suspensions=[(s.container_id, s.pool_id) for s in sus],
                                  results=None if results is None else [(r.container_id, r.error) for r in results],
                                  pools=[(p.avail_cpu_pool, p.avail_ram_pool, [c.container_id for c in p.active_containers], [c.container_id for c in p.suspending_containers]) for p in w.executor.pools],
                                  ops={w.name(o): s.value for p in w.pipelines for o, s in p.runtime_status().operator_states.items()}))
            if w.ended:
                e = w.exception
                # signature by what was wrong with the decision (the reference executor's reason), not by where or
                # with which words the implementation happened to refuse it
                w.flag({"C08"}, "executor-raised", f"tick {t}: {type(e[2]).__name__}: {e[2]}", ("model-reject:" + w.reject_reason()) if w.reject_reason() else e[3])
                break
            for m in w.mm[n_before:]:
                if m.kind == "inadmissible-command-executed":
                    m.tags.add("C08")
            if sc["scheduler"] == "overbook":
                pm.after_exec_overbook()
            w.boundary_checks()
        if pm is not None and not w.ended:
            pm.finish()
    finally:
        w.close()
    return w


# ---------------------------------------------------------------------------
# scenario alphabets
# ---------------------------------------------------------------------------
SHAPES = {
    "single": [[]],
    "chain2": [[], [0]],
    "chain3": [[], [0], [1]],
    "fork": [[], [0], [0]],
    "join": [[], [], [0, 1]],
    "diamond": [[], [0], [0], [1, 2]],
    "chain4": [[], [0], [1], [2]],
    "roots4": [[], [], [], []],
}
BASE_SHAPES = tuple(SHAPES)
# two roots, a child of ONE of them: the other root can fail in the very tick the child becomes ready
SHAPES["vee"] = [[], [], [1]]
SHAPES["vee0"] = [[], [], [0]]
SHAPES["vee3"] = [[], [], [], [2]]
# two independent branches r1 -> x, r2 -> y
SHAPES["twobranch"] = [[], [], [0], [1]]
SHAPES["roots2"] = [[], []]


def op_profile(name, tps, small=0.5, over=3.0, huge=1e6, over2=6.0):
    """named operator profiles (one segment each unless stated)"""
    d = lambda k: k / tps
    if name == "s1":
        return [dict(cpu=d(1), scaling="const", mem=small, read=0)]
    if name == "s2":
        return [dict(cpu=d(2), scaling="const", mem=small, read=0)]
    if name == "s3":
        return [dict(cpu=d(3), scaling="const", mem=small, read=0)]
    if name.startswith("s") and name[1:].isdigit() and int(name[1:]) > 9:     # sN: N ticks of compute
        return [dict(cpu=d(int(name[1:])), scaling="const", mem=small, read=0)]
    if name == "s9":        # a long filler
        return [dict(cpu=d(9), scaling="const", mem=small, read=0)]
    if name == "over":      # over any first allocation of the small pools, under the doubled one
        return [dict(cpu=d(2), scaling="const", mem=over, read=0)]
    if name == "over2":     # over the doubled first allocation, under the quadrupled one
        return [dict(cpu=d(2), scaling="const", mem=over2, read=0)]
    if name == "m3":        # 3 GB for two ticks: several of them overflow a small overcommitted pool
        return [dict(cpu=d(2), scaling="const", mem=3.0, read=0)]
    if name == "huge":      # never fits
        return [dict(cpu=d(1), scaling="const", mem=huge, read=0)]
    if name == "grow":      # grows 20/tps per tick for 2 ticks then holds
        return [dict(cpu=d(1), scaling="const", mem=None, read=20.0 * 2 / tps)]
    if name == "io2":       # two ticks of reading, no compute tick, fixed small memory
        return [dict(cpu=0.0, scaling="const", mem=small, read=20.0 * 2 / tps)]
    if name == "c1io1":     # two segments: one compute tick, then one tick of reading
        return [dict(cpu=d(1), scaling="const", mem=small, read=0), dict(cpu=0.0, scaling="const", mem=small, read=20.0 / tps)]
    if name == "z":         # rounds to zero ticks
        return [dict(cpu=0.0, scaling="const", mem=small, read=0)]
    raise KeyError(name)


def pipeline(prio, arrival, shape, profs, tps, **kw):
    par = SHAPES[shape]
    ops = [op_profile(profs[i % len(profs)], tps, **kw) for i in range(len(par))]
    return dict(prio=prio, arrival=arrival, shape=shape, profs=list(profs), parents=par, ops=ops)


def workloads(tps, per1, per2, per3, per4=None, **kw):
    """All arrival-sorted lists of 1..4 pipelines; perN = (prios, shapes, profsets, arrivals) alphabet for lists of length N."""
    out = []
    for n, per in ((1, per1), (2, per2), (3, per3), (4, per4)):
        if not per:
            continue
        prios, shapes, profsets, arrivals = per
        one = [(pr, ar, sh, pf) for ar in arrivals for pr in prios for sh in shapes for pf in profsets]
        for combo in itertools.product(one, repeat=n):
            if all(combo[i][1] <= combo[i + 1][1] for i in range(n - 1)):
                out.append(combo)
    return out


def horizon_of(combo, tps, extra=6):
    h = max(c[1] for c in combo) + extra
    for pr, ar, sh, pf in combo:
        for i in range(len(SHAPES[sh])):
            name = pf[i % len(pf)]
            h += {"s1": 1, "s2": 2, "s3": 3, "s9": 9, "over": 4, "over2": 6, "huge": 3, "grow": 4, "z": 1, "m3": 2}.get(name, 2)
    return min(h, 36)


def build(algo, cfg, combo, tps, **kw):
    pools, cpus, ram, multi, oc = cfg
    kw = dict(kw)
    inj = kw.pop("inject_suspend_at", None) if "inject_suspend_at" in kw else None
    hz = kw.pop("horizon", None)
    pipes = [pipeline(pr, ar, sh, pf, tps, **kw) for pr, ar, sh, pf in combo]
    sc = dict(name=f"{algo}-p{pools}c{cpus}r{ram}m{int(multi)}t{tps}", scheduler=algo, tps=tps, pools=pools, cpus=cpus, ram=ram,
              overcommit=oc, multi=multi, horizon=horizon_of(combo, tps) + (6 if inj is not None else 0), pipelines=pipes)
    if inj is not None:
        sc["inject_suspend_at"] = inj
    if hz is not None:
        sc["horizon"] = hz
    return sc


def space(kind, tier, seed=0):
    """Returns list of (algo, cfg, combo, tps, kw) tuples - the scenario space of one check."""
    q = tier == "quick"
    out = []
    only_tps = None
    if "@" in kind:
        kind, t = kind.split("@")
        only_tps = int(t)
    if kind.startswith("dag:"):
        # branching DAGs through every shipped scheduler, OOM->retry and (priority) preemption->resume
        algo = kind[4:]
        cfgs = {"naive": [(1, 2, 8, True, False), (2, 2, 4, False, False)],
                "starter": [(1, 2, 8, True, False), (2, 2, 4, False, False)],
                "overbook": [(1, 2, 4, True, True), (2, 1, 8, True, True)],
                "priority": [(1, 1, 25, True, False), (1, 10, 25, True, False), (1, 10, 25, False, False), (2, 1, 40, True, False)],
                "priority-pool": [(2, 1, 25, True, False), (2, 10, 25, True, False)]}[algo]
        for tps in ((1,) if q else (1, 2)):
            shapes = list(BASE_SHAPES)
            profsets = [("s1",), ("s2", "s1"), ("s1", "over"), ("over", "s1")]
            wl = workloads(tps, (("B", "I"), shapes, profsets, (0,)),
                           (("B",), shapes, profsets, (0,)) if q else (("B", "I"), shapes, profsets, (0, 1)), None)
            # a query arriving later forces the priority scheduler to preempt
            wl2 = [c + (("Q", 2, "single", ("s1",)),) for c in wl if len(c) == 1] + [c + (("Q", 1, "single", ("s1",)),) for c in wl if len(c) == 1]
            for cfg in cfgs:
                over = (max(1, int(cfg[2] / 10)) + 0.5) if algo.startswith("priority") else (5.0 if algo in ("naive", "starter") else 3.0)
                for combo in wl + wl2:
                    out.append((algo, cfg, combo, tps, dict(over=over)))
        return out
    if kind.startswith("deep:"):
        # retry chains with progress: a container fails, its retry gets further and fails again (twice doubled)
        algo = kind[5:]
        cfgs = [(2, 10, 25, True, False), (2, 20, 40, True, False)] if algo == "priority-pool" else [(1, 10, 25, True, False), (2, 20, 40, True, False)]
        import itertools as _it
        for tps in (1,):
            for cfg in cfgs:
                j = max(1, int(cfg[2] / 10))
                kw = dict(over=j + 0.5, over2=2 * j + 0.5)
                profsets = sorted(set(_it.permutations(("s1", "over", "over2", "s1"), 4)) | set(_it.permutations(("s1", "over", "over2"), 3)))
                for shape in ("chain3", "chain4", "diamond", "fork"):
                    for pf in profsets:
                        if len(pf) > len(SHAPES[shape]):
                            continue
                        for pr in ("Q", "I", "B"):
                            out.append((algo, cfg, ((pr, 0, shape, pf),), tps, kw))
                            out.append((algo, cfg, ((pr, 0, shape, pf), ("I" if pr != "I" else "B", 1, "single", ("s3",))), tps, kw))
        return out
    if kind == "preempt:priority":
        # several batch containers reach their boundary together while several queries arrive: victim counting
        for tps in (1,):
            for cfg in ((1, 3, 25, True, False), (1, 4, 25, True, False), (2, 2, 25, True, False)):
                for nb in (2, 3):
                    for bprof in (("s1", "s1"), ("s1", "s2"), ("s2", "s1")):
                        for nq in (2, 3):
                            for qarr in (1, 2):
                                for qprof in (("s1",), ("s3",)):
                                    combo = tuple(("B", 0, "chain2", bprof) for _ in range(nb)) + tuple(("Q", qarr, "single", qprof) for _ in range(nq))
                                    out.append(("priority", cfg, combo, tps, dict(over=3.5)))
                                    combo2 = tuple(("I" if i % 2 else "B", 0, "chain2", bprof) for i in range(nb)) + tuple(("Q", qarr, "single", qprof) for _ in range(nq))
                                    out.append(("priority", cfg, combo2, tps, dict(over=3.5)))
        return out
    if kind == "inject:priority-pool":
        # an outside actor suspends every suspendable container at one tick (priority-pool itself never suspends):
        # resumed work of both pool classes comes back in the same round
        for cfg in ((2, 10, 400, True, False), (2, 10, 800, True, False)):
            for pa in ("Q", "I"):
                for prof in (("s1", "s2"), ("s1", "s1", "s1"), ("s2", "s1")):
                    for inj in (1, 2, 3):
                        shape = "chain3" if len(prof) == 3 else "chain2"
                        for extra in ((), (("I", 0, "chain2", ("s1", "s3")),)):
                            combo = ((pa, 0, shape, prof), ("B", 0, shape, prof)) + extra
                            out.append(("priority-pool", cfg, combo, 1, dict(over=45.0, inject_suspend_at=inj)))
        return out
    if kind.startswith("ratio:"):
        # pool shapes in which the CPU share and the RAM share of a request differ (fewer GB than CPUs; 17-19 CPUs, where
        # a tenth rounds down to 1/17..1/19): repeated OOM failures double both, the half-of-the-pool rule bites on ONE of them
        algo = kind[6:]
        p = 2 if algo == "priority-pool" else 1
        for cfg in ((p, 20, 8, True, False), (p, 18, 100, True, False), (p, 19, 60, True, False), (p, 17, 100, False, False), (p, 40, 12, True, False)):
            j = max(1, int(cfg[2] / 10))
            kw = dict(over=j + 0.5, over2=2 * j + 0.5)
            for pr in ("Q", "I", "B"):
                for shape, pfs in (("single", (("over",), ("over2",), ("huge",))), ("chain2", (("s1", "over2"), ("s1", "huge"), ("over", "over2"), ("huge", "s1")))):
                    for pf in pfs:
                        out.append((algo, cfg, ((pr, 0, shape, pf),), 1, kw))
                        out.append((algo, cfg, ((pr, 0, shape, pf), ("B" if pr != "B" else "I", 1, "single", ("huge",))), 1, kw))
        return out
    if kind.startswith("sibling:"):
        # single-operator containers: a root is OOM-killed in the tick in which its sibling completes and unblocks a child, so
        # one round sees a failed operator (to be retried with doubled size) next to a never-run ready one of the same
        # pipeline; fillers of lower priority keep the pool tight and arrive afterwards
        algo = kind[8:]
        p = 2 if algo == "priority-pool" else 1
        import itertools as _it
        for cfg in ((p, 3, 25, False, False), (p, 4, 25, False, False), (p, 10, 100, False, False), (p, 3, 25, True, False)):
            j = max(1, int(cfg[2] / 10))
            kw = dict(over=j + 0.5, over2=2 * j + 0.5)
            for shape in ("vee", "vee0", "vee3"):
                n = len(SHAPES[shape])
                for pf in _it.product(("s1", "s2", "over"), repeat=n):
                    if "over" not in pf[:n - 1]:
                        continue
                    for pr in ("I", "B") if algo == "priority-pool" else ("Q", "I"):
                        lo = "B" if pr != "B" else "I"
                        out.append((algo, cfg, ((pr, 0, shape, pf),), 1, kw))
                        for nf in (1, 2, 3):
                            for farr in (1, 2):
                                out.append((algo, cfg, ((pr, 0, shape, pf),) + tuple((lo if algo != "priority-pool" else pr, farr, "single", ("s3",)) for _ in range(nf)), 1, kw))
        return out
    if kind == "twice:priority":
        # the SAME pipeline is preempted twice: pool full (a four-operator batch pipeline + long fillers), a query arrives,
        # the batch container is suspended at its boundary and resumed, the pool is full again, a second query arrives;
        # write-outs of 1, 2 and 4 ticks (25 / 40 / 80 GB per container at 1 tick/s)
        for cfg in ((1, 2, 400, True, False), (1, 3, 400, True, False), (1, 2, 800, True, False), (1, 2, 250, True, False)):
            nf = cfg[1] - 1
            for bprof in (("s1",), ("s2", "s1"), ("s1", "s2"), ("s2",)):
                for fpr in ("B", "I"):
                    for a1 in (1, 2):
                        for gap in (2, 3, 4, 5, 6, 8):
                            for qprof in (("s1",), ("s2",)):
                                combo = (("B", 0, "chain4", bprof),) + tuple((fpr, 0, "single", ("s9",)) for _ in range(nf)) + \
                                        (("Q", a1, "single", qprof), ("Q", a1 + gap, "single", qprof))
                                out.append(("priority", cfg, combo, 1, dict(over=45.0)))
        return out
    if kind == "retrypreempt:priority":
        # a RETRIED (doubled: two shares of CPU and RAM) non-query container is preempted: a two/three-operator pipeline whose
        # first operator OOMs once, long fillers that take the other CPUs, and one or two queries arriving around the boundary
        # of the retry. When the write-out ends the pool has 0 < free CPU < the CPUs the job ran with (the query took one),
        # so the resumed job meets the "fewer CPUs than before" / "less RAM than before" corners of the re-offer code
        for cfg in ((1, 5, 100, True, False), (1, 6, 100, True, False), (1, 4, 100, True, False), (1, 5, 50, True, False)):
            j = max(1, int(cfg[2] / 10))
            kw = dict(over=j + 0.5, over2=2 * j + 0.5)
            for nf in sorted({cfg[1] - 2, cfg[1] - 1, cfg[1] - 3} - {0}):
                for shape, bprof in (("chain2", ("over", "s1")), ("chain2", ("over", "s2")), ("chain3", ("over", "s1", "s1")), ("chain3", ("s1", "over", "s2"))):
                    for fpr in ("B", "I"):
                        for qarr in (2, 3, 4, 5, 6):
                            for nq in (1, 2):
                                for qprof in (("s1",), ("s9",)):
                                    combo = (("B", 0, shape, bprof),) + tuple((fpr, 0, "single", ("s9",)) for _ in range(nf)) + \
                                            tuple(("Q", qarr, "single", qprof) for _ in range(nq))
                                    out.append(("priority", cfg, combo, 1, kw))
        return out
    if kind == "mixed:priority-pool":
        # latency-sensitive retry chains on pool 0 while pool 1 is (nearly) full of long batch work, and the other way round
        for cfg in ((2, 3, 25, True, False), (2, 5, 25, True, False), (2, 4, 40, True, False), (2, 10, 100, True, False)):
            j = max(1, int(cfg[2] / 10))
            kw = dict(over=j + 0.5, over2=2 * j + 0.5)
            for pr in ("Q", "I"):
                for shape, pf in (("single", ("over",)), ("single", ("over2",)), ("chain2", ("s1", "over")), ("chain2", ("s1", "over2")), ("chain3", ("s1", "over", "over2")), ("chain3", ("over", "s1", "over2"))):
                    for nb in sorted({cfg[1] - 2, cfg[1] - 1, cfg[1]} - {0, -1}):
                        for barr in (0, 1):
                            for extra in ((), (("B", 0, "single", ("over",)),), (("I" if pr == "Q" else "Q", 2, "single", ("s1",)),)):
                                combo = ((pr, 0, shape, pf),) + tuple(sorted(tuple(("B", barr, "single", ("s9",)) for _ in range(nb)) + extra, key=lambda c: c[1]))
                                combo = tuple(sorted(combo, key=lambda c: c[1]))
                                out.append(("priority-pool", cfg, combo, 1, kw))
        return out
    if kind.startswith("branch:"):
        # single-operator containers on several pools: one branch of a pipeline fails while the other branch is still
        # running (or completes in the same tick), other pipelines arrive before / with / after the failure
        algo = kind[7:]
        import itertools as _it
        oc_ = algo == "overbook"
        for cfg in (((1, 4, 8, True, True), (2, 2, 8, True, True), (1, 3, 8, True, True)) if oc_ else ((2, 2, 4, False, False), (3, 2, 4, False, False), (2, 1, 8, False, False))):
            for r1, r2 in _it.product(("s1", "s2", "s3"), ("s1", "s2")):
                for x in ("s1", "s2"):
                    for y in (("huge", "s1", "s3") if oc_ else ("huge",)):
                        for order in ((r1, r2, x, y), (r2, r1, y, x)):
                            base = ("B", 0, "twobranch", order)
                            out.append((algo, cfg, (base,), 1, dict(over=5.0)))
                            for oarr in (0, 1, 2, 3):
                                for oprof in (("s1",), ("s3",)):
                                    out.append((algo, cfg, (base, ("B", oarr, "single", oprof)), 1, dict(over=5.0)))
                                    out.append((algo, cfg, tuple(sorted((("B", oarr, "single", oprof), base), key=lambda c: c[1])), 1, dict(over=5.0)))
        return out
    if kind == "capwait:priority-pool":
        # small pools on which the first retry already reaches half of the pool: the failed job cannot be looked at in the
        # round its failure comes back (pool full), later arrivals queue behind it, then room appears
        for cfg in ((2, 3, 3, True, False), (2, 2, 2, True, False), (2, 3, 4, True, False)):
            nf = cfg[1] - 1
            for fprof in (("s3",), ("s2",)):
                for garr in (1,):
                    for gprof in (("s3",), ("s1",)):
                        for carr in (2, 3):
                            for iarr in (2, 3):
                                for cls in ("Q", "I"):
                                    lo = "I" if cls == "Q" else "I"
                                    combo = ((cls, 0, "single", ("over",)),) + tuple((cls, 0, "single", fprof) for _ in range(nf)) + \
                                            ((cls, garr, "single", gprof),) + tuple(sorted(((cls, carr, "single", ("s1",)), (lo, iarr, "single", ("s1",))), key=lambda c: c[1]))
                                    out.append(("priority-pool", cfg, combo, 1, dict(over=max(1, int(cfg[2] / 10)) + 0.5)))
        return out
    if kind.startswith("longchain:"):
        # ONE very long pipeline (a chain, and a chain with a fan at its end) next to ordinary traffic: caps on how many
        # operators a container / a round / a queue takes; length follows the constants of the scheduler sources
        from .. import scale as _scale
        algo = kind[10:]
        L, info = _scale.size(["scheduler/", "workload/runtime_status", "workload/pipeline", "utils/", "executor/"], 40 if q else 120, 3000 if q else 6000)
        SHAPES[f"chain{L}"] = [[]] + [[i] for i in range(L - 1)]
        cfgs = {"naive": [(2, 2, 8, True, False), (2, 2, 8, False, False)], "priority": [(1, 10, 40, True, False), (1, 10, 40, False, False)],
                "priority-pool": [(2, 10, 40, True, False)], "overbook": [(2, 2, 8, True, True)], "starter": [(2, 2, 8, False, False)]}[algo]
        for cfg in cfgs:
            over = (max(1, int(cfg[2] / 10)) + 0.5) if algo.startswith("priority") else 5.0
            for qarr in (5, L // 2):
                combo = tuple(sorted((("B", 0, f"chain{L}", ("s1",)), ("Q", qarr, "single", ("s1",)), ("B", qarr + 1, "chain2", ("s1", "s2"))), key=lambda c: c[1]))
                out.append((algo, cfg, combo, 1, dict(over=over, horizon=L + qarr + 16)))
        return out
    if kind.startswith("scale:"):
        # MANY pipelines through one scheduler: queues, windows, tables and caches that only matter beyond some count.
        # The count follows the program's own constants (mc/scale.py): past every new number in the scheduler /
        # executor / lifecycle sources, a small default otherwise.
        from .. import scale as _scale
        algo = kind[6:]
        n, info = _scale.size(["scheduler/", "executor/", "workload/runtime_status", "workload/pipeline", "utils/"], 160 if q else 400, 9000 if q else 20000)
        cfgs = {"naive": [(1, 2, 8, False, False), (2, 2, 8, True, False)], "priority": [(1, 4, 40, True, False), (1, 4, 40, False, False)],
                "priority-pool": [(2, 6, 60, True, False)], "overbook": [(1, 4, 8, True, True)], "starter": [(1, 2, 8, False, False)]}[algo]
        for cfg in cfgs:
            conc = cfg[0] * (1 if algo in ("naive", "starter") else cfg[1])
            if algo == "priority-pool":
                conc = cfg[1]       # one class may have to go through one pool
            head = [("B", 0, "chain2", ("s1", "over")), ("I", 0, "single", ("s2",))]
            if algo.startswith("priority"):
                # ... and long fillers, so that the retry of the failed second operator has to wait at the head of its queue
                head += [("B", 0, "single", ("s9",)) for _ in range(cfg[1] - 1)]
                head.append(("B", 2, "single", ("s9",)))     # arrives with the failure report and takes the CPU the failure freed
            if algo == "priority":
                head.append(("Q", 2, "single", ("s1",)))
            over = (max(1, int(cfg[2] / 10)) + 0.5) if algo.startswith("priority") else 5.0
            hz = (n + 8) // conc + 20
            if algo == "overbook":
                # a pipeline that is abandoned early (its first root never fits) while its second root outlives most of the
                # others (it holds one CPU meanwhile); the rest of the queue drains afterwards
                hz = (n + 8) // max(1, conc - 1) + 60
                head.append(("B", 0, "roots2", ("huge", f"s{max(10, (3 * n // 4) // max(1, conc - 1))}")))
            mixes = (("B", "I"), ("B",)) if algo.startswith("priority") else (("B",),)
            for mix in mixes:
                a0 = 4 if algo == "overbook" else (3 if algo.startswith("priority") else 0)      # (overbook: the head pipelines have the pool to themselves for their three failures)
                body = [(mix[i % len(mix)], a0 if i < n // 2 else a0 + 1, "single", ("s1",)) for i in range(n)]
                combo = tuple(sorted(head + body, key=lambda c: c[1]))
                out.append((algo, cfg, combo, 1, dict(over=over, horizon=hz)))
        return out
    if kind == "wide:overbook":
        # a wide pipeline is abandoned while one of its containers is still running; other pipelines wait for CPUs
        import itertools as _it
        for cfg in ((1, 4, 8, True, True), (2, 2, 8, True, True), (1, 3, 8, True, True)):
            for straggler in ("s1", "s2", "s3"):
                for pos in range(4):
                    pf = ["huge"] * 4
                    pf[pos] = straggler
                    for nq in (3, 4):
                        for qprof in (("s3",), ("s2",)):
                            for qarr in (0, 1):
                                combo = (("B", 0, "roots4", tuple(pf)),) + tuple(("B", qarr, "single", qprof) for _ in range(nq))
                                out.append(("overbook", cfg, combo, 1, {}))
        return out
    if kind.startswith("busy:"):
        # a busy pool: 4-5 single-operator pipelines of ONE class (long fillers, OOM->retry candidates, short ones)
        algo = kind[5:]
        cfgs = [(2, 5, 25, True, False), (2, 3, 25, True, False)] if algo == "priority-pool" else [(1, 5, 25, True, False), (1, 3, 25, True, False), (1, 5, 25, False, False),
                                                                                                   (1, 20, 5, True, False)]   # more CPUs than GB: RAM runs out first
        for tps in (1,):
            for pr in (("I",), ("B",)) if not q else (("I",),):
                one = [(pr[0], ar, "single", pf) for ar in (0, 1, 2) for pf in (("s3",), ("over",), ("s1",))]
                for n in (4, 5):
                    for combo in itertools.product(one, repeat=n):
                        if all(combo[i][1] <= combo[i + 1][1] for i in range(n - 1)) and any(c[3] == ("over",) for c in combo):
                            for cfg in cfgs:
                                out.append((algo, cfg, combo, tps, dict(over=max(1, int(cfg[2] / 10)) + 0.5)))
        return out
    if kind.startswith("corner:"):
        # corners of the configuration x workload space: 1 CPU, sub-GB RAM, zero-tick operators, growing memory
        algo = kind[7:]
        oc = algo == "overbook"
        pools_opts = (2,) if algo == "priority-pool" else ((1, 2) if q else (1, 2, 3))
        cfgs = [(p, c, r, m, oc) for p in pools_opts for c in (1, 2) for r in ((0.5, 8) if q else (0.5, 1, 8)) for m in (True, False)]
        prios = ("B", "Q") if algo.startswith("priority") else ("B",)
        for tps in ((1, 2) if q else (1, 2, 10)):
            profs1 = [("z",), ("s1", "z"), ("z", "z", "s1"), ("grow",), ("s1", "over"), ("huge",)]
            profs2 = [("z",), ("s1", "z"), ("grow",), ("huge",)]
            wl = workloads(tps, (prios, list(BASE_SHAPES), profs1, (0, 1)), (prios, ("single", "chain2", "diamond"), profs2, (0, 1)), None)
            for cfg in cfgs:
                for combo in wl:
                    out.append((algo, cfg, combo, tps, dict(over=0.75, small=0.5)))
        return out
    if kind == "naive":
        cfgs = [(p, c, r, m, False) for p in ((1, 2) if q else (1, 2, 3)) for c in ((2,) if q else (1, 2)) for r in (4, 8) for m in (True, False)]
        cfgs += [(1, 2.5, 8, True, False), (2, 0.5, 4, False, False), (2, 1.5, 6.5, True, False)]    # pools of any size: fractions of a CPU / GB
        for tps in ((1,) if q else (1, 2)):
            profsets = [("s1",), ("s2", "s1"), ("s1", "over"), ("huge",)]
            wl = workloads(tps, (("B",), list(BASE_SHAPES), profsets, (0,)),
                           (("B", "Q"), ("single", "chain2", "fork", "join", "diamond"), profsets, (0, 1, 3)) if not q else
                           (("B",), ("single", "chain2", "fork", "join"), profsets, (0, 1, 3)),
                           (("B",), ("single", "chain2", "join"), (("s1",), ("s1", "over")), (0, 1)))
            for cfg in cfgs:
                for combo in wl:
                    out.append(("naive", cfg, combo, tps, dict(over=5.0)))
    elif kind == "starter":
        cfgs = [(p, 2, r, m, False) for p in (1, 2) for r in (4, 8) for m in (True, False)]
        profsets = [("s1",), ("s2", "s1"), ("s1", "over"), ("huge",)]
        wl = workloads(1, (("B",), list(BASE_SHAPES), profsets, (0,)),
                       (("B",), ("single", "chain2", "fork", "join"), profsets, (0, 1, 3)), None)
        for cfg in cfgs:
            for combo in wl:
                out.append(("starter", cfg, combo, 1, dict(over=5.0)))
    elif kind == "overbook":
        cfgs = [(p, c, r, m, True) for p in (1, 2) for c in (1, 2, 3) for r in (4, 8) for m in ((True,) if q else (True, False))]
        for tps in ((1,) if q else (1, 2)):
            profsets = [("s1",), ("s2", "s1"), ("m3",), ("s1", "m3"), ("huge",)]
            wl = workloads(tps, (("B",), list(BASE_SHAPES), profsets, (0,)),
                           (("B",), ("single", "chain2", "fork", "join"), profsets, (0, 1, 3) if not q else (0, 1)),
                           (("B",), ("single", "chain2"), (("m3",), ("s1", "m3"), ("huge",)), (0, 1)),
                           None if q else (("B",), ("single",), (("m3",), ("s2",)), (0, 1)))
            for cfg in cfgs:
                for combo in wl:
                    out.append(("overbook", cfg, combo, tps, {}))
    elif kind in ("priority", "priority-pool"):
        if kind == "priority":
            base = [(1, 1, 25), (1, 1, 40), (1, 2, 4), (2, 1, 25), (1, 4, 25), (1, 10, 40)]
            if not q:
                base += [(2, 1, 4), (2, 2, 40), (1, 1, 4), (2, 10, 25)]
            cfgs = [(p, c, r, m, False) for (p, c, r) in base for m in (True, False)]
        else:
            base = [(2, 1, 25), (2, 2, 4), (2, 3, 25), (2, 4, 25), (2, 10, 25), (2, 10, 40)] + ([] if q else [(2, 1, 4), (2, 2, 25), (2, 4, 40), (2, 20, 40)])
            cfgs = [(p, c, r, True, False) for (p, c, r) in base]
        for tps in ((1, 2) if q else (1, 2, 4)):
            if only_tps and tps != only_tps:
                continue
            pr = ("Q", "I", "B")
            if q:
                per2 = (pr, ("single", "chain2", "fork"), (("s1",), ("s2", "s1"), ("s1", "over")), (0, 1, 2))
                # three pipelines: a busy pool (long fillers) around an OOM->retry chain
                per3 = (pr, ("single",), (("s3",), ("over",), ("s1",)), (0, 1)) if kind == "priority-pool" else (pr, ("single", "chain2"), (("s2",),), (0, 1))
                per4 = None
            else:
                per2 = (pr, ("single", "chain2", "chain3", "fork"), (("s1",), ("s2", "s1"), ("s1", "over")), (0, 1, 2, 4))
                per3 = (pr, ("single", "chain2"), (("s1",), ("s2",), ("over",)), (0, 1, 2))
                per4 = (pr, ("single", "chain2"), (("s1",),), (0, 1))
            wl = workloads(tps, (pr, list(BASE_SHAPES), (("s1",), ("s2", "s1"), ("s1", "over"), ("huge",)), (0,)), per2, per3, per4)
            for cfg in cfgs:
                # 'over' exceeds the first allocation (a tenth of the pool, at least 1 GB) and fits the doubled one
                over = max(1, int(cfg[2] / 10)) + 0.5
                for combo in wl:
                    out.append((kind, cfg, combo, tps, dict(over=over)))
    return out


def run_checked(sc, trace=None):
    """run(), plus the differential oracle for priority-pool scenarios with mixed load"""
    lat = [i for i, ps in enumerate(sc["pipelines"]) if ps["prio"] != "B"]
    if sc["scheduler"] == "priority-pool" and lat and len(lat) < len(sc["pipelines"]) and not w_exception_expected(sc):
        # isolation as non-interference: the decisions taken for pool 0 (query / interactive work) must be the same
        # with and without the batch pipelines of the scenario
        tr1, tr2 = (trace if trace is not None else []), []
        w = run(sc, tr1)
        sc2 = dict(sc, pipelines=[sc["pipelines"][i] for i in lat])
        w2 = run(sc2, tr2)
        ren = {f"p{k + 1}.": f"p{i + 1}." for k, i in enumerate(lat)}

        def pool0(tr, rename):
            out = []
            for t in tr:
                for names, cpu, ram, pool in t["assignments"]:
                    if pool == 0:
                        if rename:
                            names = [ren[n[:n.index(".") + 1]] + n[n.index(".") + 1:] for n in names]
                        out.append((t["tick"], tuple(names), cpu, ram))
            return out
        a, b = pool0(tr1, False), pool0(tr2, True)
        if w.ended and not w2.ended and w.exception is not None:
            w.flag({"C16"}, "pool0-decisions-depend-on-batch-load", f"with the batch pipelines present the run ends in tick {w.tick} with {type(w.exception[2]).__name__}: {w.exception[2]}; without them it runs to the end")
        if a != b and not w.ended and not w2.ended:
            k = next((i for i, (x, y) in enumerate(zip(a, b)) if x != y), min(len(a), len(b)))
            w.flag({"C16"}, "pool0-decisions-depend-on-batch-load", f"pool-0 assignments (tick, operators, cpu, ram) with the batch pipelines present: {a[k:k + 2]}; without them: {b[k:k + 2]}")
    else:
        w = run(sc, trace)
    return w


def w_exception_expected(sc):
    return not sc["multi"]   # (recorded finding: priority-pool raises in single-operator mode)


def work(chunk):
    tot = f1.new_acc()

    class _Ch:
        choices = []
    for item in chunk:
        algo, cfg, combo, tps, kw = item
        sc = build(algo, cfg, combo, tps, **kw)
        w = run_checked(sc)
        s = f1.summarize(sc, _Ch, w)
        s["outcomes"] = {(sc["name"], o) for o in s["outcomes"]}
        s["mm"] = [(t, k, site, d, dict(item=item)) for (t, k, site, d, _) in s["mm"]]
        f1.merge(tot, s)
    return tot
