"""F3: memory mixes. n containers in one pool, each from (start offset, allocation, profile);
no choices afterwards. With and without overcommit. Exercises individual limits, the pool-level
killer (order != usage order, ties, several victims, a container finishing or using nothing in
the crossing tick) and the truthfulness of reported usage."""
import itertools
from ..world import World, C, P, F, A, R
from . import f1

TPS = 2          # growth 10 GB per tick, exact arithmetic
POOL_RAM = 40


def S(cpu_t=0, mem=None, read_t=0):
    return dict(cpu=cpu_t / TPS, scaling="const", mem=mem, read=20.0 * read_t / TPS)


PROFILES = {
    "fix4x2": [[S(2, 4)]],
    "fix16x3": [[S(3, 16)]],
    "fix12x1": [[S(1, 12)]],
    "zero3": [[S(3, 0)]],
    "grow30": [[S(1, None, 3)]],          # 10, 20, 30 then holds 30 for one tick
    "grow20": [[S(1, None, 2)]],
    "two": [[S(1, 8)], [S(1, None, 2)]],  # 8, then 10, 20, 20
    "fix20x2": [[S(2, 20)]],
    "shrink": [[S(2, 16)], [S(3, 4)]],      # 16 GB for two ticks, then a later operator that needs 4
    "rise": [[S(2, 4)], [S(3, 16)]],
    # operators shorter than a tick that read a little (4 GB: 0.4 ticks of I/O): one forced tick, at most 4 GB in it
    "sip": [[S(0, None, 0.4)]],
    "sipcpu": [[S(0.4, None, 0.4)]],
    "sip2": [[S(0, None, 0.4)], [S(2, 4)]],
}
SIPS = ("sip", "sipcpu", "sip2")
ALLOCS = [8, 16, 32, 40]
OFFSETS = [0, 1, 2]


SMALL = {   # sub-GB world: pool of 1.6 GB, allocations below and above 1 GB, fixed memory only
    "s0.5x3": [[S(3, 0.5)]], "s1.2x3": [[S(3, 1.2)]], "s0.1x3": [[S(3, 0.1)]], "s0.75x2": [[S(2, 0.75)]], "s0.3x1": [[S(1, 0.3)]],
}
PROFILES.update(SMALL)


def scenario(conts, overcommit):
    """conts: list of (offset, alloc, profile)"""
    pipes = []
    placed = any(len(c) > 3 for c in conts)
    conts = [tuple(c) + (0,) * (4 - len(c)) for c in conts]
    for off, alloc, prof, pool in conts:
        ops = PROFILES[prof]
        pipes.append(dict(prio="B", arrival=off, alloc=alloc, profile=prof, pool=pool, parents=[[i - 1] if i else [] for i in range(len(ops))], ops=ops))
    life = max(off + sum(max(1, int(s["cpu"] * TPS) + int(s["read"] / 20 * TPS)) for o in PROFILES[prof] for s in o) for off, _, prof, _ in conts)
    ram = 1.6 if all(prof in SMALL for _, _, prof, _ in conts) else POOL_RAM
    # placed variants: several pools, one more than the highest pool used - the last pool stays idle for the whole run
    npools = max(c[3] for c in conts) + 2 if placed else 1
    return dict(name="F3", tps=TPS, pools=npools, cpus=8, ram=ram, overcommit=overcommit, multi=True, horizon=life + 2, pipelines=pipes)


def drift_cases(tier):
    """fully allocated pools at decimal tick rates: every container grows to exactly its allocation, so the real
    total reaches exactly the capacity while any incrementally tracked figure has had time to drift"""
    out = []
    for tps, allocs_set in ((10, (5, 15, 25)), (100, (0.5, 1.5, 2.5))):
        for n in ((3, 4) if tier == "quick" else (3, 4, 5)):
            for allocs in itertools.product(allocs_set, repeat=n):
                for offs in itertools.product(range(0, 3), repeat=n - 1):
                    if list(offs) != sorted(offs):
                        continue
                    out.append((tps, tuple(allocs), (0,) + tuple(offs)))
    # the upper end of the tick-rate range: steps of 0.2 / 0.8 MB per tick, allocations of a few MB
    for tps, allocs_set in ((100000, (0.001, 0.003, 0.005)), (25000, (0.004, 0.012, 0.02))):
        for allocs in itertools.product(allocs_set, repeat=3):
            for offs in ((0, 0), (0, 2), (1, 2)):
                out.append((tps, tuple(allocs), (0,) + offs))
    return out


def drift_scenario(case, overcommit):
    tps, allocs, offs = case
    pipes = [dict(prio="B", arrival=o, alloc=a, profile=f"grow-to-{a}", parents=[[]],
                  ops=[[dict(cpu=4.5 / tps, scaling="const", mem=None, read=float(a))]]) for a, o in zip(allocs, offs)]
    hor = int(max(allocs) / 20 * tps) + max(offs) + 8
    return dict(name="F3-drift", tps=tps, pools=1, cpus=16, ram=float(sum(allocs)), overcommit=overcommit, multi=True, horizon=hor, pipelines=pipes)


def crowd_cases(tier):
    """MANY containers in one over-committed pool: `kills` of them have to go, the survivors fill the pool EXACTLY (their
    number is a power of two, so survivors x usage is an exact float whatever the usage). Sizes follow the constants of the
    executor sources (mc/scale.py)."""
    from .. import scale as _scale
    c, info = _scale.size(["executor/"], 24, 3000, factor=1)
    surv = 16
    while surv <= c:
        surv *= 2
    out = []
    for mem in (0.7, 0.1, 0.3):
        for kills in sorted({max(3, c // 2 - 3), c + 36, 2 * c + 77 if c > 24 else 9}):
            out.append(("crowd", surv, kills, mem))
    return out


def crowd_scenario(case, overcommit=True):
    _, surv, kills, mem = case
    n = surv + kills
    pipes = [dict(prio="B", arrival=0, alloc=mem, profile=f"fix{mem}", parents=[[]], ops=[[dict(cpu=1.0, scaling="const", mem=mem, read=0)]]) for _ in range(n)]
    return dict(name="F3-crowd", tps=2, pools=1, cpus=n, ram=mem * surv, overcommit=overcommit, multi=True, horizon=4, pipelines=pipes)


def drift_work(chunk):
    tot = f1.new_acc()

    class _Ch:
        choices = []
    for case in chunk:
        for oc in (False, True):
            if case[0] == "crowd":
                if not oc:
                    continue
                sc = crowd_scenario(case, oc)
            else:
                sc = drift_scenario(case, oc)
            w = run(sc)
            s = f1.summarize(sc, _Ch, w)
            s["mm"] = [(t, k, site, d, dict(drift=case, overcommit=oc)) for (t, k, site, d, _) in s["mm"]]
            f1.merge(tot, s)
    return tot


def run(sc, trace=None):
    w = World(sc)
    try:
        arr = {}
        for i, ps in enumerate(sc["pipelines"]):
            arr.setdefault(ps["arrival"], []).append(i)
        for t in range(sc["horizon"]):
            w.arrive(arr.get(t, []))
            asg = []
            for i in arr.get(t, []):
                p, ops, ps = w.all_pipes[i]
                a = w.make_assignment(ops, 1, ps["alloc"], ps.get("pool", 0))
                if a is None:
                    break
                asg.append(a)
            if w.ended:
                break
            w.boundary_checks()
            res = w.exec_phase([], asg)
            if trace is not None:
                trace.append(dict(tick=t, assigned=[(sc["pipelines"][i]["profile"], sc["pipelines"][i]["alloc"]) for i in arr.get(t, [])],
                                  results=None if res is None else [(r.container_id, r.error) for r in res],
                                  exception=None if w.exception is None else f"{type(w.exception[2]).__name__}: {w.exception[2]}",
                                  pool=[[(c.container_id, c.assignment.ram, c.get_current_memory_usage()) for c in p.active_containers] for p in w.executor.pools],
                                  reported=[p.get_consumed_ram_gb() for p in w.executor.pools]))
            if w.ended:
                break
            w.boundary_checks()
    finally:
        w.close()
    return w


def cases(tier, seed=0):
    profs = [p for p in PROFILES if p not in SMALL and p not in ("shrink", "rise") + SIPS]
    one = [(o, a, p) for o in OFFSETS for a in ALLOCS for p in profs]
    out = []
    # two containers: full ordered product (nondecreasing offsets: creation order = list order)
    for c1, c2 in itertools.product(one, repeat=2):
        if c1[0] <= c2[0]:
            out.append((c1, c2))
    # the same pairs in a cluster of several pools: both in pool 0 next to an idle pool; both in pool 1 between two idle pools;
    # one each in pools 0 and 1 (an over-committed pool in a cluster whose total promise fits easily)
    for c1, c2 in list(out):
        for pa, pb in ((0, 0), (1, 1), (0, 1)):
            if (pa, pb) == (0, 1) and not (c1[2].startswith("grow") or c2[2].startswith("grow")):
                continue
            out.append((c1 + (pa,), c2 + (pb,)))
    # tiny readers (forced tick) with allocations just above what they read, alone, next to one and next to two others
    sips = [(o, a, p) for o in (0, 1) for a in (8, 16) for p in SIPS]
    out.extend((c,) for c in sips)
    for c1 in sips:
        for c2 in one:
            out.append((c1, c2) if c1[0] <= c2[0] else (c2, c1))
            if c1[0] == c2[0]:
                out.append((c2, c1))
    for c1 in sips:
        for c2, c3 in itertools.product([c for c in one if c[1] in (16, 32) and c[0] < 2 and c[2] in ("grow30", "grow20", "fix16x3", "fix20x2")], repeat=2):
            cs = sorted((c1, c2, c3), key=lambda c: c[0])
            out.append(tuple(cs))
    # hand-over ticks: a later operator of one container starts (its demand jumps, possibly over its allocation) in the
    # very tick a neighbour finishes or is created - movements of the pool total that cancel each other
    hand = [(o, a, p) for o in (0, 1, 2) for a in (8, 16) for p in ("rise", "shrink", "two")]
    other = [(o, a, p) for o in (0, 1, 2) for a in (16, 32) for p in ("fix12x1", "fix16x3", "fix4x2", "fix20x2")]
    for c1 in hand:
        for c2 in other:
            out.append((c1, c2) if c1[0] <= c2[0] else (c2, c1))
            if c1[0] == c2[0]:
                out.append((c2, c1))
    # three containers
    small = [(o, a, p) for o in (0, 1) for a in ((16, 32) if tier == "quick" else (8, 16, 32, 40)) for p in profs]
    for cs in itertools.product(small, repeat=3):
        if cs[0][0] <= cs[1][0] <= cs[2][0]:
            out.append(cs)
    for cs in itertools.product([c for c in small if c[1] == 32], repeat=3):
        if cs[0][0] <= cs[1][0] <= cs[2][0]:
            out.append(tuple(c + (0,) for c in cs))
            out.append((cs[0] + (1,), cs[1] + (0,), cs[2] + (1,)))
    # sub-GB allocations (scores usage^2/allocation with allocation < 1)
    sub = [(o, a, p) for o in (0, 1) for a in (0.5, 0.75, 4) for p in SMALL]
    for cs in itertools.product(sub, repeat=3):
        if cs[0][0] <= cs[1][0] <= cs[2][0]:
            out.append(cs)
    # two separate over-capacity episodes with a survivor whose usage dropped in between
    epi = [(o, 32, p) for o in (0, 1, 2, 3) for p in ("shrink", "rise", "fix16x3", "grow20")]
    for cs in itertools.product(epi, repeat=4):
        if all(cs[i][0] <= cs[i + 1][0] for i in range(3)) and any(c[2] == "shrink" for c in cs):
            out.append(cs)
    # ... and five-container histories: a survivor of a first episode (it was scored there) shrinks, then a second episode
    late = [(o, a, p) for o in (3, 4, 5) for (p, a) in (("fix16x3", 32), ("fix16x3", 16), ("grow20", 32), ("grow30", 32), ("fix12x1", 16))]
    for xo in (1, 2):
        for xa in (16, 32):
            for trio in itertools.combinations_with_replacement(late, 3):
                if trio[0][0] <= trio[1][0] <= trio[2][0]:
                    out.append(((0, 32, "grow30"), (xo, xa, "shrink")) + trio)
    # four containers from a mini alphabet built around "own-limit kill and pool-level kill in the same tick"
    mini = [(o, a, p) for o in (0, 1) for a in (16, 32) for p in ("fix16x3", "grow30", "grow20")]
    if tier == "quick":
        for cs in itertools.product(mini, repeat=4):
            if all(cs[i][0] <= cs[i + 1][0] for i in range(3)):
                out.append(cs)
    if tier == "thorough":
        tiny = [(o, a, p) for o in (0, 1) for a in (16, 32) for p in ("fix16x3", "fix12x1", "grow30", "grow20", "two", "zero3")]
        for cs in itertools.product(tiny, repeat=4):
            if all(cs[i][0] <= cs[i + 1][0] for i in range(3)):
                out.append(cs)
    return out


def work(chunk_oc):
    chunk, ocs = chunk_oc
    tot = f1.new_acc()

    class _Ch:
        choices = []
    for conts in chunk:
        for oc in ocs:
            sc = scenario(conts, oc)
            w = run(sc)
            s = f1.summarize(sc, _Ch, w)
            s["mm"] = [(t, k, site, d, dict(conts=conts, overcommit=oc)) for (t, k, site, d, _) in s["mm"]]
            f1.merge(tot, s)
    return tot
