"""F-C: one container in a huge pool, every operator list of a segment alphabet x cpus x ram x
tick rate; the observed per-tick sequence (memory, operator states, result) must be one of the
sequences the documented timeline model admits (more than one only at float boundaries)."""
import itertools
from fractions import Fraction as Fr
from .. import boot
from ..refmodel import timelines, cmp_over, tick_over, near, fr, P, A, R, S, C, F
from ..world import World, site_of

boot.load()
from eudoxia.executor.assignment import Assignment

LAWS = ["const", "log", "sqrt", "linear3", "linear7", "squared", "exp"]


def run_case(case):
    """case: dict(ops=[[seg..]..], cpus, ram, tps). Returns (problems, info)."""
    ops_spec, cpus, ram, tps = case["ops"], case["cpus"], case["ram"], case["tps"]
    n = len(ops_spec)
    sc = dict(tps=tps, pools=1, cpus=64, ram=1 << 20, overcommit=False, multi=True,
              pipelines=[dict(prio="B", parents=[[i - 1] if i else [] for i in range(n)], ops=ops_spec)])
    cands = timelines(ops_spec, cpus, tps)
    if cands is None:
        return [], dict(skipped="too many float-boundary alternatives")
    w = World(sc, compare=False)
    probs = []
    info = dict(cands=len(cands))
    try:
        p, ops, _ = w.all_pipes[0]
        w.register(p)
        a = Assignment(ops=list(ops), cpu=cpus, ram=ram, priority=p.priority, pool_id=0, pipeline_id=p.pipeline_id)
        pool = w.executor.pools[0]
        horizon = max(len(c) for c in cands) + 3
        alive = list(range(len(cands)))
        outcome = None
        w.phase = "exec"
        for k in range(1, horizon + 1):
            try:
                res = w.executor.run_one_tick([], [a] if k == 1 else [])
            except Exception as e:
                probs.append(("exception", f"tick {k}: {type(e).__name__}: {e}", site_of(e)))
                outcome = "exception"
                break
            w.tick += 1
            states = [op.state().value for op in ops]
            cont = pool.active_containers[0] if pool.active_containers else None
            mem = cont.get_current_memory_usage() if cont is not None else None
            result = None
            if res:
                if len(res) != 1:
                    probs.append(("results", f"tick {k}: {len(res)} results", ""))
                result = "oom" if res[0].failed() else "ok"
            nxt = []
            why = []
            for ci in alive:
                ok, reason = match(cands[ci], k, ram, states, mem, result, n)
                if ok:
                    nxt.append(ci)
                else:
                    why.append(reason)
            if not nxt:
                probs.append(("timeline", f"tick {k}: observed states={states} mem={mem} result={result}; no admissible timeline left "
                              f"({len(alive)} candidate(s)); e.g. {why[0]}", ""))
                outcome = "mismatch"
                break
            alive = nxt
            if result is not None:
                outcome = (result, k)
                break
        else:
            probs.append(("no-result", f"no result within {horizon} ticks; states {[op.state().value for op in ops]}", ""))
        if outcome not in (None, "exception", "mismatch") and pool.consumed_ram_gb != 0:
            probs.append(("usage-after-exit", f"pool reports {pool.consumed_ram_gb} GB after its only container ended", ""))
        for m in w.mm:
            if "C05" in m.tags or "C02" in m.tags or "C01" in m.tags:
                probs.append((m.kind, m.detail, m.site))
        info["outcome"] = outcome
        info["ticks"] = w.tick
    finally:
        w.close()
    return probs, info


def match(tl, k, ram, states, mem, result, n):
    """Is the observation after executor tick k consistent with timeline tl?"""
    if k > len(tl):
        return False, f"timeline has only {len(tl)} ticks"
    # an OOM at an earlier tick of this timeline would have ended it: checked incrementally,
    # because candidates that predicted 'over' at an earlier tick were dropped then
    t = tl[k - 1]
    c = tick_over(t, ram)
    exp_ok_states = [C] * t.op + [C if t.done else R] + [A] * (n - t.op - 1)
    exp_oom_states = [C] * t.op + [F] * (n - t.op)
    last = (k == len(tl))
    can_under = c in ("under", "either")
    can_over = c in ("over", "either")
    if result == "oom":
        if not can_over:
            return False, f"model: demand {None if t.mem is None else float(t.mem)} does not exceed {ram} at tick {k}"
        if states != exp_oom_states:
            return False, f"after OOM expected {exp_oom_states}"
        return True, ""
    if not can_under:
        return False, f"model: demand {float(t.mem)} exceeds {ram} at tick {k}: OOM expected"
    if states != exp_ok_states:
        return False, f"model expects states {exp_ok_states} at tick {k}"
    if last:
        if result != "ok":
            return False, f"model: container completes at tick {k}"
        return True, ""
    if result is not None:
        return False, f"model: container still running at tick {k} (of {len(tl)})"
    if t.mem is not None and mem is not None and not near(Fr(mem), t.mem):
        return False, f"model: memory {float(t.mem)} at tick {k}, observed {mem}"
    if t.mem is None and t.cap is not None and mem is not None and Fr(mem) > t.cap and not near(Fr(mem), t.cap):
        return False, f"model: memory at most {float(t.cap)} at tick {k} (no segment of the operator states more), observed {mem}"
    return True, ""


# ---------------------------------------------------------------------------
# alphabets
# ---------------------------------------------------------------------------

def seg_full(tps):
    """Full single-segment alphabet (durations in ticks at 1 cpu; memory relative values resolved later)."""
    out = []
    for read_t in (0, 0.4, 1, 2.5):
        for cpu_t in (0, 0.4, 1, 2.5):
            for law in LAWS:
                for mem in ("unset", 0, "small", "over"):
                    out.append((read_t, cpu_t, law, mem))
    return out


def mk_seg(read_t, cpu_t, law, mem, tps, small=0.25, over=None):
    return dict(read=20.0 * read_t / tps, cpu=cpu_t / tps, scaling=law,
                mem=None if mem == "unset" else (0 if mem == 0 else (small if mem == "small" else over)))


def peak(ops, tps):
    pk = 0.0
    for segs in ops:
        for s in segs:
            pk = max(pk, s["mem"] if s["mem"] is not None else s["read"])
    return pk


def rams(ops, tps, over_value):
    """below / just below / at / above the peak demand."""
    pk = peak(ops, tps)
    if pk <= 0:
        return [1.0]
    return [pk / 2, pk * (1 - 1e-6), pk, pk * 2]


def cases(tier, seed=0):
    out = []
    tpss = [1, 2, 3, 10, 1000, 100000]
    cpuss = [1, 2, 3, 4, 7, 8, 16]
    OVER = 3.0
    # (a) single operator, single segment: the full product
    for tps in tpss:
        for (rt, ct, law, mem) in seg_full(tps):
            for cpus in (cpuss if tier == "thorough" else [1, 2, 4, 8]):
                ops = [[mk_seg(rt, ct * (cpus if law != "const" else 1), law, mem, tps, over=OVER)]]
                for ram in rams(ops, tps, OVER):
                    out.append(dict(ops=ops, cpus=cpus, ram=ram, tps=tps))
    # (b) 2..3 operators x 1..2 segments from representative segments
    reps = [(0, 0, "const", "unset"), (0, 1, "const", "small"), (1, 0, "const", "unset"), (2.5, 1, "linear3", "unset"),
            (0.4, 0.4, "sqrt", "small"), (1, 2.5, "squared", "over"), (0, 2.5, "log", 0), (2.5, 0, "exp", "unset")]
    opkinds = [[r] for r in reps] + [[r1, r2] for r1 in reps for r2 in reps]
    two = list(itertools.product(opkinds, repeat=2))
    three = list(itertools.product([[r] for r in reps], repeat=3))
    # (no sub-sampling: the quick tier enumerates the same lists as the thorough tier, over fewer tick rates / cpu counts)
    for lst in two + three:
        for tps in ([2, 10] if tier == "quick" else [1, 2, 10, 1000]):
            for cpus in ([1, 4] if tier == "quick" else [1, 3, 4, 16]):
                ops = [[mk_seg(rt, ct, law, mem, tps, over=OVER) for (rt, ct, law, mem) in o] for o in lst]
                for ram in rams(ops, tps, OVER):
                    out.append(dict(ops=ops, cpus=cpus, ram=ram, tps=tps))
    return out
