"""Bounds that follow the program's own constants.

A bounded exhaustive check says nothing beyond its bounds, and a threshold inside the implementation ("more than 4096
queued jobs", "above 20480 ticks per second", "every 2**20 ticks") is exactly a behaviour change beyond some bound.
The scale families therefore size themselves from the numeric constants of the tree under check: every number >= 48 in
eudoxia/**/*.py (literals and constant-foldable <<, **, * expressions; keyword arguments such as maxlen= / maxsize=
included) is compared with the constants of the pinned tree (mc/constants_baseline.json); a constant that is new in a
file makes the scale scenarios of the properties anchored in that file run past it (2c + 8, up to a stated cap).
With no new constant the scale scenarios run at a small default size - the code path stays exercised."""
import ast, glob, json, os, collections
from . import boot

BASE = os.path.join(os.path.dirname(os.path.abspath(__file__)), "constants_baseline.json")
LO, HI = 48, 1 << 23


def _fold(n):
    if isinstance(n, ast.Constant) and isinstance(n.value, (int, float)) and not isinstance(n.value, bool):
        return n.value
    if isinstance(n, ast.UnaryOp) and isinstance(n.op, ast.USub):
        v = _fold(n.operand)
        return None if v is None else -v
    if isinstance(n, ast.BinOp) and isinstance(n.op, (ast.LShift, ast.Pow, ast.Mult)):
        a, b = _fold(n.left), _fold(n.right)
        if a is None or b is None:
            return None
        try:
            if isinstance(n.op, ast.LShift):
                return a << b if isinstance(a, int) and isinstance(b, int) and 0 <= b < 40 else None
            if isinstance(n.op, ast.Pow):
                return a ** b if abs(b) < 40 and abs(a) < 1e6 else None
            return a * b
        except Exception:
            return None
    return None


def scan(root):
    """relative file -> Counter of constants (rounded to int when integral)"""
    out = {}
    for f in sorted(glob.glob(os.path.join(root, "eudoxia", "**", "*.py"), recursive=True)):
        try:
            tree = ast.parse(open(f).read())
        except Exception:
            continue
        cnt = collections.Counter()
        skip = set()
        for n in ast.walk(tree):
            if id(n) in skip:
                continue
            v = _fold(n)
            if v is None:
                continue
            if isinstance(n, (ast.BinOp, ast.UnaryOp)):
                for sub in ast.walk(n):
                    skip.add(id(sub))
            if LO <= abs(v) <= HI:
                cnt[int(v) if float(v).is_integer() else round(float(v), 6)] += 1
        out[os.path.relpath(f, root)] = cnt
    return out


def write_baseline():
    s = scan(boot.REPO)
    json.dump({f: sorted([k, v] for k, v in c.items()) for f, c in s.items()}, open(BASE, "w"), indent=0)


_NEW = None


def new_constants():
    """[(file, value)] for every constant occurrence the pinned tree did not have"""
    global _NEW
    if _NEW is not None:
        return _NEW
    base = {f: {k: v for k, v in lst} for f, lst in json.load(open(BASE)).items()} if os.path.exists(BASE) else {}
    out = []
    for f, cnt in scan(boot.REPO).items():
        b = base.get(f, {})
        for k, v in cnt.items():
            if v > b.get(k, 0) and b.get(str(k), 0) < v:
                out.append((f, k))
    _NEW = out
    return out


def size(files, default, cap, factor=2):
    """size of a scale scenario: past every new constant in the given files (substring match), else `default`"""
    cs = [abs(v) for f, v in new_constants() if any(s in f for s in files)]
    want = max([default] + [int(factor * c) + 8 for c in cs])
    return min(want, cap), dict(new_constants=sorted(set(cs)), capped=want > cap, cap=cap, default=default)
