"""Per-round policy monitors for the shipped schedulers (C12, C16, C17, C18).
Stated over decisions + ground-truth state only - never over scheduler-internal queues."""
from .refmodel import P, A, R, S, C, F
from .world import SV

ORDER = {"QUERY": 0, "INTERACTIVE": 1, "BATCH_PIPELINE": 2}


def ready(op):
    return all(par.state().value == C for par in op.parents)


class Round:
    """Ground truth captured before and after one scheduler call."""

    def __init__(self, w, results, new):
        ex = w.executor
        self.tick = w.tick
        self.results = list(results)
        self.new = list(new)
        self.pre_pools = [(p.avail_cpu_pool, p.avail_ram_pool, p.max_cpu_pool, p.max_ram_pool) for p in ex.pools]
        self.pre_active = [[(c.container_id, c.priority.name, c) for c in p.active_containers] for p in ex.pools]
        if len(w.pipelines) > 96:
            # many pipelines: the transition log's shadow is the state of every operator that ever moved; the others are pending
            self.pre_states = _Pre(w.shadow)
        else:
            self.pre_states = {op: SV[id(s)] for pl in w.pipelines for op, s in pl.runtime_status().operator_states.items()}

    def done(self, w, sus, asg):
        self.sus = list(sus)
        self.asg = list(asg)
        self.free_after = []
        for pid, (cpu, ram, _, _) in enumerate(self.pre_pools):
            self.free_after.append((cpu - sum(a.cpu for a in asg if a.pool_id == pid), ram - sum(a.ram for a in asg if a.pool_id == pid)))


class _Pre(dict):
    """operator -> state before the round, from the transition log (an operator the log never saw is pending)"""

    def get(self, k, d=None):
        return dict.get(self, k, P if d is None else d)

    def __missing__(self, k):
        return P


class PolicyMonitor:
    def __init__(self, w, algo):
        self.w = w
        self.algo = algo
        self.first_seen = {}      # pipeline -> arrival index
        self.first_container = {}  # pipelines that got a first container (insertion-ordered)
        self.waiting_first = {}    # class name (or None) -> {pipeline: arrival index} still without a first container, in arrival order
        self.failed_containers = {}
        self.abandon = {}         # frozenset(ops) -> reason, for C16
        self.retry_sets = []      # (ops tuple expected together)
        self.n_arrived = 0

    def flag(self, pid, kind, detail):
        self.w.flag({pid}, kind, f"tick {self.w.tick}: {detail}")

    def name(self, op):
        return self.w.name(op)

    def arrivals(self, new):
        for p in new:
            self.first_seen[p] = self.n_arrived
            self.waiting_first.setdefault(p.priority.name, {})[p] = self.n_arrived
            self.waiting_first.setdefault(None, {})[p] = self.n_arrived
            self.n_arrived += 1

    def check(self, rd):
        self.arrivals(rd.new)
        for r in rd.results:
            if r.failed():
                pl = r.ops[0].pipeline
                self.failed_containers[pl] = self.failed_containers.get(pl, 0) + 1
        for a in rd.asg:
            if any(rd.pre_states.get(o) == F for o in a.ops):
                self.w.stats["retries"] += 1
        getattr(self, "check_" + self.algo.replace("-", "_"), lambda rd: None)(rd)
        # bookkeeping of first containers (after the checks that use the previous value)
        for a in rd.asg:
            pl = a.ops[0].pipeline
            if pl not in self.first_container:
                self.first_container[pl] = True
                self.waiting_first.get(pl.priority.name, {}).pop(pl, None)
                self.waiting_first.get(None, {}).pop(pl, None)

    def finish(self):
        """end of the run: if the cluster has drained (no container left) nothing that had to be retried may still be waiting"""
        w = self.w
        if self.algo != "priority-pool" or any(p.active_containers or p.suspending_containers for p in w.executor.pools):
            return
        for exp, abandoned, info in self.retry_sets:
            if not abandoned and all(o.state().value == F for o in exp):
                self.flag("C16", "failed-work-never-retried", f"{sorted(self.name(o) for o in exp)} failed in {info}, the doubled request is below half of the pool, "
                          f"the cluster is idle at the end of the run, and the work was neither retried nor abandoned")

    # ------------------------------------------------------------------ naive
    def check_naive(self, rd, pid="C17", single=None):
        w = self.w
        single = (not w.multi) if single is None else single
        per_pool = {}
        for a in rd.asg:
            per_pool.setdefault(a.pool_id, []).append(a)
        for pool, lst in per_pool.items():
            if len(lst) > 1:
                self.flag(pid, "more-than-one-container-per-pool", f"pool {pool} got {len(lst)} assignments in one round")
            for a in lst:
                cpu, ram, _, _ = rd.pre_pools[pool]
                if a.cpu != cpu or a.ram != ram:
                    self.flag(pid, "not-whole-free-pool", f"pool {pool}: assignment ({a.cpu} cpu, {a.ram} GB) but the pool had ({cpu}, {ram}) free")
        if rd.sus:
            self.flag(pid, "suspends", f"issued {len(rd.sus)} suspension(s)")
        for a in rd.asg:
            pl = a.ops[0].pipeline
            if any(rd.pre_states.get(o) == F for o in pl.runtime_status().operator_states):
                self.flag(pid, "assigned-after-failure", f"{pl.pipeline_id} had a failed operator and was assigned again: {[self.name(o) for o in a.ops]}")
            if single:
                if len(a.ops) != 1:
                    self.flag(pid, "not-single-operator", f"{[self.name(o) for o in a.ops]}")
                elif not all(rd.pre_states.get(par) == C for par in a.ops[0].parents):
                    self.flag(pid, "operator-not-ready", f"{self.name(a.ops[0])} assigned with unfinished parent")
        self.fifo_first(rd, pid, by_class=False)

    def fifo_first(self, rd, pid, by_class):
        """first containers in arrival order (optionally per priority class)"""
        got = set()
        for a in rd.asg:
            pl = a.ops[0].pipeline
            if pl in self.first_container or pl in got:
                continue
            mine = self.first_seen.get(pl, 1 << 30)
            # the earliest-arrived pipeline (of that class) that still has no first container, this round's included
            for other, idx in self.waiting_first.get(pl.priority.name if by_class else None, {}).items():
                if other in got or other is pl:
                    continue
                if idx < mine:
                    self.flag(pid, "first-container-out-of-arrival-order",
                              f"{pl.pipeline_id} (arrival #{self.first_seen.get(pl)}) got its first container while earlier {other.pipeline_id} (arrival #{idx}) has none")
                break      # (arrival order: the first one decides)
            got.add(pl)

    # --------------------------------------------------------------- overbook
    def check_overbook(self, rd):
        w = self.w
        pid = "C18"
        for a in rd.asg:
            _, _, _, max_ram = rd.pre_pools[a.pool_id] if 0 <= a.pool_id < len(rd.pre_pools) else (0, 0, 0, None)
            if len(a.ops) != 1:
                self.flag(pid, "not-single-operator", f"{[self.name(o) for o in a.ops]}")
                continue
            op = a.ops[0]
            if rd.pre_states.get(op) not in (P, F) or not all(rd.pre_states.get(par) == C for par in op.parents):
                self.flag(pid, "operator-not-ready", f"{self.name(op)} was {rd.pre_states.get(op)} / parents {[rd.pre_states.get(par) for par in op.parents]}")
            if a.cpu != 1:
                self.flag(pid, "not-one-cpu", f"{self.name(op)} got {a.cpu} cpus")
            if a.ram != max_ram:
                self.flag(pid, "not-full-pool-ram", f"{self.name(op)} got {a.ram} GB, pool capacity {max_ram}")
            pl = op.pipeline
            if self.failed_containers.get(pl, 0) >= 3:
                self.flag(pid, "assigned-after-abandon", f"{pl.pipeline_id} has {self.failed_containers[pl]} failed containers and was assigned again")
        if rd.sus:
            self.flag(pid, "suspends", f"issued {len(rd.sus)} suspension(s)")
        if rd.new or rd.results:
            free = [c for c, _ in rd.free_after]
            if any(c >= 1 for c in free):
                for pl in w.pipelines:
                    if self.failed_containers.get(pl, 0) >= 3:
                        continue
                    for op, s in pl.runtime_status().operator_states.items():
                        if s.value in (P, F) and ready(op):
                            self.flag(pid, "ready-operator-waits-with-free-cpu", f"{self.name(op)} ({s.value}) unassigned while free cpus after the round are {free}")

    def after_exec_overbook(self):
        for p in self.w.executor.pools:
            if len(p.active_containers) + len(p.suspending_containers) > p.max_cpu_pool:
                self.flag("C18", "more-containers-than-cpus", f"pool {p.pool_id}: {len(p.active_containers)} containers, {p.max_cpu_pool} cpus")

    # ---------------------------------------------------------- priority-pool
    def check_priority_pool(self, rd):
        pid = "C16"
        if rd.sus:
            self.flag(pid, "suspends", f"issued {len(rd.sus)} suspension(s)")
        for a in rd.asg:
            pr = a.ops[0].pipeline.priority.name
            want = 1 if pr == "BATCH_PIPELINE" else 0
            if a.pool_id != want:
                self.flag(pid, "wrong-pool", f"{pr} work {[self.name(o) for o in a.ops]} assigned to pool {a.pool_id}")
        # retry rule: failures reported to this round are retried (or abandoned) from this round on
        for r in rd.results:
            if r.failed():
                unfinished = {o for o in r.ops if rd.pre_states.get(o) != C}
                _, _, mc, mr = rd.pre_pools[r.pool_id]
                abandoned = (2 * r.cpu >= 0.5 * mc) or (2 * r.ram >= 0.5 * mr)
                self.retry_sets.append((unfinished, abandoned, f"container {r.container_id} ({r.cpu} cpu, {r.ram} GB)"))
        for a in rd.asg:
            ops = set(a.ops)
            for ent in list(self.retry_sets):
                exp, abandoned, info = ent
                if ops & exp:
                    if abandoned:
                        self.flag(pid, "abandoned-retry-assigned", f"{[self.name(o) for o in a.ops]} assigned although the doubled request of {info} reaches half of the pool")
                    elif ops != exp:
                        self.flag(pid, "retry-set-wrong", f"retry contains {sorted(self.name(o) for o in ops)} but the failed container left {sorted(self.name(o) for o in exp)} unfinished")
                    else:
                        self.w.stats["retries_checked"] = self.w.stats.get("retries_checked", 0) + 1
                    self.retry_sets.remove(ent)
        self.priority_order(rd, shared={"QUERY", "INTERACTIVE"}, pool_of=lambda pr: 1 if pr == "BATCH_PIPELINE" else 0)

    # --------------------------------------------------------------- priority
    def check_priority(self, rd):
        self.priority_order(rd, shared={"QUERY", "INTERACTIVE", "BATCH_PIPELINE"}, pool_of=None)
        self.preemption(rd)

    def priority_order(self, rd, shared, pool_of):
        w = self.w
        pid = "C12"
        waiting = []   # (class, op) pending & ready after the round
        for pl in w.pipelines:
            for op, s in pl.runtime_status().operator_states.items():
                if s.value == P and ready(op):
                    waiting.append((pl.priority.name, op))
        assigned_classes = {a.ops[0].pipeline.priority.name for a in rd.asg}
        # (1) strict order among the classes that share a pool
        for cls, op in waiting:
            if cls not in shared:
                continue
            lower = [c for c in assigned_classes if c in shared and ORDER[c] > ORDER[cls]]
            if lower:
                self.flag(pid, "lower-priority-assigned-while-higher-waits", f"{self.name(op)} ({cls}) is pending and ready but {lower} work was assigned this round")
        # (2) FIFO of first containers inside a class
        self.fifo_first(rd, pid, by_class=True)
        # (3) work conservation
        for cls, op in waiting:
            pools = range(w.npools) if pool_of is None else [pool_of(cls)]
            if not all(rd.free_after[p][0] <= 0 or rd.free_after[p][1] <= 0 for p in pools):
                self.flag(pid, "ready-operator-waits-with-free-pool", f"{self.name(op)} ({cls}) pending and ready; free (cpu, ram) after the round: {[rd.free_after[p] for p in pools]}")

    def preemption(self, rd):
        w = self.w
        pid = "C12"
        if not rd.sus:
            return
        # waiting query work after the round
        if w.multi:
            nwait = sum(1 for pl in w.pipelines if pl.priority.name == "QUERY" and any(s.value in (P, F) for s in pl.runtime_status().operator_states.values()))
        else:
            nwait = sum(1 for pl in w.pipelines if pl.priority.name == "QUERY" for op, s in pl.runtime_status().operator_states.items() if s.value in (P, F))
        if nwait == 0:
            self.flag(pid, "suspension-without-waiting-query", f"{len(rd.sus)} suspension(s) but no query work is waiting")
        elif len(rd.sus) > nwait:
            self.flag(pid, "more-suspensions-than-waiting-queries", f"{len(rd.sus)} suspensions for {nwait} waiting query job(s)")
        for s in rd.sus:
            hit = None
            for pidx, lst in enumerate(rd.pre_active):
                for cid, prio, c in lst:
                    if cid == s.container_id and pidx == s.pool_id:
                        hit = (prio, c)
            if hit is None:
                self.flag(pid, "suspends-non-running", f"{s.container_id} in pool {s.pool_id} is not a running container")
                continue
            if hit[0] == "QUERY":
                self.flag(pid, "suspends-query-container", f"{s.container_id}")
            k = w.key_of_cid.get(s.container_id)
            rc = w.model.all.get(k) if (w.model is not None and not w.model_dead) else None
            if rc is not None and not rc.boundary:
                self.flag(pid, "suspends-mid-operator", f"{s.container_id} is not at an operator boundary (model position {rc.pos}/{len(rc.tl)})")

    def check_starter(self, rd):
        pass
