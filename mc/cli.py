import argparse, importlib, json, os, sys
from . import boot


def main():
    boot.reexec_with_hashseed()
    ap = argparse.ArgumentParser(prog="check")
    ap.add_argument("pid", nargs="?")
    ap.add_argument("--tier", default=os.environ.get("VERIF_TIER", "quick"), choices=["quick", "thorough"])
    ap.add_argument("--replay")
    a = ap.parse_args()
    seed = int(os.environ.get("VERIF_SEED", "0") or 0)
    # watchdog: a check that does not terminate is a harness failure, never a silent pass
    import signal, resource

    def _timeout(*_):
        print("HARNESS-ERROR watchdog: check exceeded its wall-clock budget")
        os.killpg(os.getpgid(0), signal.SIGKILL)
    try:
        os.setpgrp()
    except Exception:
        pass
    signal.signal(signal.SIGALRM, _timeout)
    signal.alarm(int(os.environ.get("VERIF_WATCHDOG_S", "1500" if a.tier == "quick" else "14400")))
    try:
        resource.setrlimit(resource.RLIMIT_AS, (12 << 30, 12 << 30))   # inherited by workers
    except Exception:
        pass
    boot.load()
    if a.replay:
        with open(a.replay) as f:
            rec = json.load(f)
        mod = importlib.import_module(f"mc.props.{rec['property'].lower()}")
        sys.exit(mod.replay(rec))
    if not a.pid:
        ap.error("property id required")
    mod = importlib.import_module(f"mc.props.{a.pid.lower()}")
    sys.exit(mod.main(a.tier, seed))


if __name__ == "__main__":
    main()
