import argparse, importlib, json, os, sys
from . import boot


def main():
    boot.reexec_with_hashseed()
    ap = argparse.ArgumentParser(prog="check")
    ap.add_argument("pid", nargs="?")
    ap.add_argument("--tier", default=os.environ.get("VERIF_TIER", "quick"), choices=["quick", "thorough"])
    ap.add_argument("--replay")
    a = ap.parse_args()
    seed = int(os.environ.get("VERIF_SEED", "0") or 0)
    boot.load()
    if a.replay:
        with open(a.replay) as f:
            rec = json.load(f)
        mod = importlib.import_module(f"mc.props.{rec['property'].lower()}")
        sys.exit(mod.replay(rec))
    if not a.pid:
        ap.error("property id required")
    mod = importlib.import_module(f"mc.props.{a.pid.lower()}")
    sys.exit(mod.main(a.tier, seed))


if __name__ == "__main__":
    main()
