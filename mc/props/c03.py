"""C03 - pool CPU and RAM are conserved: never lost, never double-freed, never oversold."""
from ..report import Report
from .. import simcheck


def main(tier, seed):
    rep = Report("C03", tier, seed)
    rep.cov["rule"] = ("F1: every command sequence with <=k deviations from a default policy (menu: odd sizes, oversubscribing batches, wrong pools, "
                       "dependency/lifecycle violations, suspension of any container ever seen) on the real Executor, lock-step with a reference ledger; "
                       "non-trivial = distinct (scenario, outcome-counter vector, exception site) classes")
    simcheck.run_f1(rep, "C03", tier)
    return rep.finish()


def replay(rec):
    return simcheck.replay_f1(rec)
