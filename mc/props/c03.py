"""C03 - pool CPU and RAM are conserved: never lost, never double-freed, never oversold."""
from .. import simcheck


def main(tier, seed):
    rep = simcheck.sim_main("C03", tier, seed, ["F1", "F2", "F3"])
    return rep.finish()


def replay(rec):
    return simcheck.replay(rec)
