"""C10 - suspension only between operators, lasts RAM/20 s, returns work intact."""
from .. import simcheck


def main(tier, seed):
    rep = simcheck.sim_main("C10", tier, seed, ["F2", "F1"])
    return rep.finish()


def replay(rec):
    return simcheck.replay(rec)
