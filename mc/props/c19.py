"""C19 - the REST bridge is transparent and keeps its protocol promises."""
import json, math, re, os, threading, http.server
from ..report import Report, Violation
from ..explorer import pmap, Chooser, explore_subtree, children
from ..world import SV, C, P, F, A, R, site_of
from ..families import f6, f5, f1
from .. import boot

boot.load()
import eudoxia.scheduler.rest as rest
from eudoxia.scheduler.decorators import register_scheduler, register_scheduler_init, SCHEDULING_ALGOS
from eudoxia.executor.assignment import Assignment, Suspend
from eudoxia.utils import Priority

TAINTS = ["734561", "734563"]   # cpu seconds and read size; current memory use of a container is legitimately visible
GO_FIELDS = None


class Resp:
    def __init__(self, obj, status=200):
        self.obj = obj
        self.status = status

    def raise_for_status(self):
        if self.status >= 400:
            raise RuntimeError(f"HTTP {self.status}")

    def json(self):
        return json.loads(json.dumps(self.obj))


class Transport:
    """stands in for `requests` inside eudoxia.scheduler.rest; JSON-encodes every request, hands the
    text to the external-scheduler stub, JSON-decodes the reply."""

    def __init__(self, stub):
        self.stub = stub

    def post(self, url, json=None, **kw):
        import json as _j
        text = _j.dumps(json)          # must be serialisable exactly as the HTTP client would do
        return Resp(self.deliver(url, text))

    def deliver(self, url, text):
        path = url.rsplit("/", 1)[-1]
        reply = self.stub.handle(path, text)
        if path == "schedule":
            # environment answer: the reply arrives (default), or it is lost AFTER the external scheduler has
            # processed the request (read timeout / connection reset) - the caller sees a transport error
            k = self.stub.ch.choose(3, "transport")
            if k:
                import requests as _rq
                self.stub.lost += 1
                raise (_rq.exceptions.ReadTimeout if k == 1 else _rq.exceptions.ConnectionError)("reply lost (injected by the harness)")
        return reply


class Stub:
    """The external scheduler. Sees ONLY request texts. Every /schedule reply is a choice point whose
    menu is computed from the payload alone."""

    def __init__(self, ch, sc, checker):
        self.ch = ch
        self.sc = sc
        self.checker = checker
        self.calls = []
        self.init_seen = 0
        self.lost = 0

    def handle(self, path, text):
        if path == "init":
            self.init_seen += 1
            self.checker.on_init(text)
            return {}
        pay = json.loads(text)
        self.checker.on_schedule(pay, text)
        menu = self.menu(pay)
        k = self.ch.choose(len(menu), "reply")
        reply = menu[k]
        self.calls.append((pay.get("tick"), reply))
        self.checker.on_reply(reply)
        return reply

    def menu(self, pay):
        multi = self.sc.get("multi", True)
        none = dict(suspensions=[], assignments=[])
        if self.sc.get("assign_all"):
            # bulk scenario: one reply only - every ready operator gets one CPU in the first pool that still has one
            free = {p["pool_id"]: [p["avail_cpu"], p["avail_ram_gb"]] for p in pay["pools"]}
            asgs = []
            for pl in pay["new_pipelines"] + pay["other_pipelines"]:
                for o in pl["operators"]:
                    if o["is_assignable_state"] and o["parents_complete"]:
                        pid = next((k for k, v in free.items() if v[0] >= 1 and v[1] >= 0.5), None)
                        if pid is None:
                            break
                        free[pid][0] -= 1
                        free[pid][1] -= 0.5
                        asgs.append(dict(operator_ids=[o["id"]], cpu=1, ram_gb=0.5, pool_id=pid, priority=pl["priority"], is_resume=False, force_run=False))
            return [dict(suspensions=[], assignments=asgs)]
        pools = [p for p in pay["pools"] if p["avail_cpu"] >= 1 and p["avail_ram_gb"] > 0]
        ready = []
        for pl in pay["new_pipelines"] + pay["other_pipelines"]:
            ops = [o for o in pl["operators"] if o["is_assignable_state"] and o["parents_complete"]]
            allops = [o for o in pl["operators"] if o["is_assignable_state"]]
            if ops:
                ready.append((pl, ops, allops))

        def asg(ids, pool, cpu, ram, pl):
            return dict(operator_ids=ids, cpu=cpu, ram_gb=ram, pool_id=pool["pool_id"], priority=pl["priority"], is_resume=False, force_run=False)
        default = none
        if ready and pools:
            pl, ops, allops = ready[0]
            default = dict(suspensions=[], assignments=[asg([ops[0]["id"]], pools[0], 1, min(2, pools[0]["avail_ram_gb"]), pl)])
        menu = [default]
        if default is not none:
            menu.append(none)
        for pl, ops, allops in ready[:2]:
            for pool in pools[:2]:
                for cpu, ram in ((1, min(2, pool["avail_ram_gb"])), (pool["avail_cpu"], pool["avail_ram_gb"]), (pool["avail_cpu"], min(0.75, pool["avail_ram_gb"]))):
                    m = dict(suspensions=[], assignments=[asg([ops[0]["id"]], pool, cpu, ram, pl)])
                    if m not in menu:
                        menu.append(m)
                if multi and len(allops) > 1:
                    menu.append(dict(suspensions=[], assignments=[asg([o["id"] for o in allops], pool, 1, min(2, pool["avail_ram_gb"]), pl)]))
                    # ... and with everything the pool has left: a later suspension of this container takes several ticks to write out
                    m = dict(suspensions=[], assignments=[asg([o["id"] for o in allops], pool, pool["avail_cpu"], pool["avail_ram_gb"], pl)])
                    if m not in menu:
                        menu.append(m)
        if len(ready) > 1 and pools and pools[0]["avail_cpu"] >= 2:
            menu.append(dict(suspensions=[], assignments=[asg([ready[0][1][0]["id"]], pools[0], 1, 1, ready[0][0]), asg([ready[1][1][0]["id"]], pools[0], 1, 1, ready[1][0])]))
        for p in pay["pools"]:
            for c in p["active_containers"][:2]:
                menu.append(dict(suspensions=[dict(container_id=c["container_id"], pool_id=p["pool_id"])], assignments=[]))
        return menu


def covers(got, want, path=""):
    """got (from the payload) must agree with every figure in want (ground truth); additional keys that the
    statement does not speak about are allowed (the taint scan still covers their contents)"""
    if isinstance(want, dict):
        if not isinstance(got, dict):
            return f"{path}: {got!r} is not an object"
        for k, v in want.items():
            if k not in got:
                return f"{path}.{k} missing"
            r = covers(got[k], v, f"{path}.{k}")
            if r:
                return r
        return None
    if isinstance(want, list):
        if not isinstance(got, list) or len(got) != len(want):
            return f"{path}: {got!r} vs {want!r}"
        for i, (g, w_) in enumerate(zip(got, want)):
            r = covers(g, w_, f"{path}[{i}]")
            if r:
                return r
        return None
    if isinstance(want, float) or isinstance(got, float):
        try:
            return None if abs(got - want) <= 1e-9 * max(1, abs(want)) else f"{path}: {got!r} vs {want!r}"
        except TypeError:
            return f"{path}: {got!r} vs {want!r}"
    return None if got == want else f"{path}: {got!r} vs {want!r}"


class Checker:
    """compares every request with the ground truth at the instant of the call"""

    def __init__(self, rec, sc):
        self.rec = rec
        self.sc = sc
        self.viol = []
        self.call_ticks = []
        self.complete_reported = {}
        self.seen_new = {}
        self.last_reply = None
        self.replies = []

    def flag(self, kind, d):
        self.viol.append((kind, d))

    def on_init(self, text):
        try:
            d = json.loads(text)
            if "params" not in d:
                self.flag("init-payload", "no params in /init payload")
        except Exception as e:
            self.flag("init-payload", f"{e}")

    def on_schedule(self, pay, text):
        w = self.rec.w
        rd = self.rec.cur_round
        tick = w.tick
        if self.last_reply is not None:
            self.flag("reply-discarded", f"tick {tick}: another /schedule call although the decisions of the previous reply {self.last_reply} were never executed")
        if self.call_ticks and self.call_ticks[-1][0] == tick:
            self.flag("called-twice-in-one-tick", f"tick {tick}: the same state (results, new pipelines) was delivered twice")
        self.call_ticks.append((tick, bool(rd.new), bool(rd.results)))
        for t in TAINTS:
            if t in text:
                self.flag("leaks-true-resource-needs", f"request text contains the segment figure ...{t}")
        for k in ("results", "new_pipelines", "other_pipelines", "pools"):
            if k not in pay:
                self.flag("payload-shape", f"missing key {k}")
                return
        # results of the last tick
        want = [dict(ops=[str(o.id) for o in r.ops], cpu=r.cpu, ram=r.ram, priority=r.priority.name, pool_id=r.pool_id, container_id=r.container_id, error=r.error) for r in rd.results]
        bad = covers(pay["results"], json.loads(json.dumps(want)), "results")
        if bad:
            self.flag("results-not-true", f"tick {tick}: {bad}; payload results {pay['results']} vs executor results {want}")
        # pools and containers
        ex = w.executor
        if len(pay["pools"]) != len(ex.pools):
            self.flag("pools-not-true", f"{len(pay['pools'])} pools reported")
        for pj, p in zip(pay["pools"], ex.pools):
            truth = dict(pool_id=p.pool_id, max_cpu=p.max_cpu_pool, max_ram_gb=p.max_ram_pool, avail_cpu=p.avail_cpu_pool, avail_ram_gb=p.avail_ram_pool,
                         consumed_ram_gb=sum(c.get_current_memory_usage() for c in p.active_containers))
            for k, v in truth.items():
                if k not in pj or (abs(pj[k] - v) > 1e-9 if isinstance(v, float) else pj[k] != v):
                    self.flag("pools-not-true", f"tick {tick} pool {p.pool_id}: {k} reported {pj.get(k)}, true {v}")
            for key, lst in (("active_containers", p.active_containers), ("suspending_containers", p.suspending_containers), ("suspended_containers", p.suspended_containers)):
                got = pj.get(key)
                wantc = [dict(container_id=c.container_id, pipeline_id=c.operators[0].pipeline.pipeline_id, operator_ids=[str(o.id) for o in c.operators], cpu=c.assignment.cpu,
                              ram_gb=c.assignment.ram, current_memory_gb=c.get_current_memory_usage(), priority=c.priority.name) for c in lst]
                bad = covers(got, json.loads(json.dumps(wantc)), key)
                if bad:
                    self.flag("containers-not-true", f"tick {tick} pool {p.pool_id} {key}: {bad}; reported {got}, true {wantc}")
        # pipelines and operator states
        newids = [pl["pipeline_id"] for pl in pay["new_pipelines"]]
        otherids = [pl["pipeline_id"] for pl in pay["other_pipelines"]]
        if set(newids) & set(otherids) or len(set(newids)) != len(newids) or len(set(otherids)) != len(otherids):
            self.flag("new-and-other-overlap", f"tick {tick}: new {newids}, other {otherids}")
        if sorted(newids) != sorted(p.pipeline_id for p in rd.new):
            self.flag("new-pipelines-wrong", f"tick {tick}: arrived {[p.pipeline_id for p in rd.new]}, reported new {newids}")
        for i in newids:
            if i in self.seen_new:
                self.flag("announced-twice", f"{i} in new_pipelines at ticks {self.seen_new[i]} and {tick}")
            self.seen_new[i] = tick
        for i in otherids:
            if i not in self.seen_new:
                self.flag("other-before-new", f"{i} in other_pipelines without having been announced")
        byid = {p.pipeline_id: p for p in w.pipelines}
        known_incomplete = [i for i in self.seen_new if i not in self.complete_reported and i not in newids]
        for i in known_incomplete:
            if i not in otherids:
                self.flag("known-pipeline-missing", f"tick {tick}: {i} was announced, never reported complete, and is absent")
        for pl in pay["new_pipelines"] + pay["other_pipelines"]:
            p = byid.get(pl["pipeline_id"])
            if p is None:
                self.flag("unknown-pipeline", pl["pipeline_id"])
                continue
            st = p.runtime_status()
            ops = list(p.values)
            truth_ops = [dict(id=str(o.id), state=SV[id(st.operator_states[o])], is_assignable_state=SV[id(st.operator_states[o])] in (P, F),
                              parents_complete=all(SV[id(st.operator_states[q])] == C for q in o.parents)) for o in ops]
            bad = covers(sorted(pl["operators"], key=lambda o: o["id"]), sorted(truth_ops, key=lambda o: o["id"]), "operators")
            if bad:
                self.flag("operator-states-not-true", f"tick {tick} {pl['pipeline_id']}: {bad}; reported {pl['operators']}, true {truth_ops}")
            comp = all(o["state"] == C for o in truth_ops)
            if pl["is_complete"] != comp:
                self.flag("is-complete-wrong", f"tick {tick} {pl['pipeline_id']}: is_complete={pl['is_complete']}, true {comp}")
            if pl["has_failures"] != any(o["state"] == F for o in truth_ops):
                self.flag("has-failures-wrong", f"tick {tick} {pl['pipeline_id']}")
            if pl["priority"] != p.priority.name or pl["arrival_tick"] != st.arrival_tick:
                self.flag("pipeline-fields-wrong", f"tick {tick} {pl['pipeline_id']}: {pl['priority']},{pl['arrival_tick']} vs {p.priority.name},{st.arrival_tick}")
            if pl["pipeline_id"] in self.complete_reported:
                self.flag("reported-after-complete", f"{pl['pipeline_id']} reported complete at tick {self.complete_reported[pl['pipeline_id']]} and present again at tick {tick}")
            elif pl["is_complete"]:
                self.complete_reported[pl["pipeline_id"]] = tick

    def on_reply(self, reply):
        self.last_reply = reply

    def decisions_as_given(self, sus, asg, idmap):
        r = self.last_reply
        self.last_reply = None
        if r is None:
            if sus or asg:
                self.flag("decisions-without-call", f"scheduler returned {len(sus)} suspensions / {len(asg)} assignments without calling out")
            return
        got_s = [dict(container_id=s.container_id, pool_id=s.pool_id) for s in sus]
        got_a = [dict(operator_ids=[str(o.id) for o in a.ops], cpu=a.cpu, ram_gb=a.ram, pool_id=a.pool_id, priority=a.priority.name, is_resume=a.is_resume, force_run=a.force_run) for a in asg]
        if covers(got_s, r["suspensions"], "suspensions") or covers(got_a, r["assignments"], "assignments"):
            self.flag("decisions-not-as-given", f"reply {r} became suspensions {got_s}, assignments {got_a}")


REPLAY_KEY = "verifreplay"
_REPLAY = {}


def ensure_replay_scheduler():
    if REPLAY_KEY in SCHEDULING_ALGOS:
        return

    @register_scheduler_init(key=REPLAY_KEY)
    def _init(s):
        s.t = 0
        s.known = []

    @register_scheduler(key=REPLAY_KEY)
    def _sched(s, results, pipelines):
        s.known.extend(pipelines)
        s.t += 1
        dec = _REPLAY["by_tick"].get(s.t - 1)
        if not dec:
            return [], []
        sus = [Suspend(c, p) for c, p in dec["sus"]]
        asg = []
        for (ops, cpu, ram, pool, prio) in dec["asg"]:
            real = [list(s.known[pi].values.node_lookup.values())[oi] for pi, oi in ops]
            asg.append(Assignment(ops=real, cpu=cpu, ram=ram, priority=Priority[prio], pool_id=pool, pipeline_id=real[0].pipeline.pipeline_id))
        return sus, asg


def run_one(sc, ch, collect=None):
    """one execution of the real run_simulator(scheduler_algo='rest') against the stub"""
    f6.hook()
    rec_holder = {}
    decisions = {}
    # wrap the sched hook to expose the current round and compare decisions
    orig_sched = f6._o_sched

    def sched_spy(self, results, pipelines):
        r = f6.REC
        class _Rd: pass
        rd = _Rd()
        rd.results = list(results)
        rd.new = list(pipelines)
        r.cur_round = rd
        sus, asg = orig_sched(self, results, pipelines)
        ck = rec_holder.get("ck")
        if ck is not None:
            ck.decisions_as_given(sus, asg, None)
        w = r.w
        idx = {}
        for pi, p in enumerate(w.pipelines):
            for oi, o in enumerate(p.values.node_lookup.values()):
                idx[o] = (pi, oi)
        if sus or asg:
            decisions[w.tick] = dict(sus=[(s.container_id, s.pool_id) for s in sus],
                                     asg=[([idx[o] for o in a.ops], a.cpu, a.ram, a.pool_id, a.priority.name) for a in asg])
        return sus, asg

    f6._o_sched = sched_spy
    stub = None
    # the interception point is the lowest one the `requests` library has (HTTPAdapter.send): whichever way the bridge
    # talks HTTP through that library - requests.post, a Session, mounted adapters, timeouts - the request that would
    # go on the wire arrives here as a prepared request (method, url, encoded body) and the reply goes back as a Response
    import requests as _rq
    orig_send = _rq.adapters.HTTPAdapter.send

    def fake_send(adapter, request, **kw):
        nonlocal stub
        if stub is None:
            ck = Checker(f6.REC, sc)
            rec_holder["ck"] = ck
            stub = Stub(ch, sc, ck)
            f6.REC.cur_round = type("R", (), dict(results=[], new=[]))()
        body = request.body
        text = body.decode("utf-8") if isinstance(body, (bytes, bytearray)) else (body or "")
        if request.method != "POST":
            rec_holder["ck"].flag("http-method", f"{request.method} {request.url}")
        reply = Transport(stub).deliver(request.url, text)
        resp = _rq.models.Response()
        resp.status_code = 200
        resp._content = json.dumps(reply).encode("utf-8")
        resp.headers["Content-Type"] = "application/json"
        resp.encoding = "utf-8"
        resp.url = request.url
        resp.request = request
        resp.reason = "OK"
        return resp
    try:
        _rq.adapters.HTTPAdapter.send = fake_send
        w, r, stats, exc = f6.run(sc)
    finally:
        _rq.adapters.HTTPAdapter.send = orig_send
        f6._o_sched = orig_sched
    ck = rec_holder.get("ck")
    viol = list(ck.viol) if ck else [("no-init-call", "the REST scheduler never called out")]
    if ck and stub.init_seen != 1:
        viol.append(("init-calls", f"/init called {stub.init_seen} times"))
    # timing rule
    if ck:
        tps, poll = sc["tps"], sc["extra_params"]["rest_poll_interval"]
        called = {t for t, _, _ in ck.call_ticks}
        nt = int(sc["duration"] * tps)
        events = {}
        for (t, p, _) in r.arrivals:
            events.setdefault(t, [False, False])[0] = True
        for (t, failed, err, cid) in r.results:
            events.setdefault(t + 1, [False, False])[1] = True
        for t, (a, b) in events.items():
            if t < nt and t not in called and exc is None:
                viol.append(("no-call-on-event", f"tick {t}: {'arrival' if a else ''} {'result' if b else ''} but no call to the external scheduler"))
        prev = None
        for t, hasnew, hasres in ck.call_ticks:
            if prev is not None and not hasnew and not hasres and (t - prev) / tps < poll - 1e-9:
                viol.append(("polls-too-often", f"idle calls at ticks {prev} and {t}: {(t - prev) / tps}s apart, poll interval {poll}s"))
            prev = t
    # equivalence with an in-process scheduler replaying the same decisions
    if stats is not None and ck:
        ensure_replay_scheduler()
        _REPLAY["by_tick"] = decisions
        sc2 = dict(sc, scheduler=REPLAY_KEY)
        sc2["extra_params"] = dict(sc["extra_params"])
        w2, r2, stats2, exc2 = f6.run(sc2)
        a = json.dumps(stats.to_dict(), default=str, sort_keys=True)
        b = None if stats2 is None else json.dumps(stats2.to_dict(), default=str, sort_keys=True)
        if a != b:
            viol.append(("stats-differ-from-in-process-replay", f"REST run {a} vs in-process replay {b} ({exc2})"))
    mm = [(m.kind, m.detail) for m in w.mm if "C19" in m.tags]
    info = dict(calls=len(ck.call_ticks) if ck else 0, rejected=exc is not None, stats=None if stats is None else stats.to_dict(), fps=set(w.fps),
                exc=None if exc is None else f"{type(exc).__name__}: {exc}", transitions=w.transitions,
                decisions=decisions, requests=None)
    return viol + mm, info


def scenario(tps, poll, pools, multi, wl):
    pipes = []
    for (prio, arr, shape, profs) in wl:
        pl = f5.pipeline(prio, arr, shape, profs, tps)
        # taint every segment figure with distinctive digits that must never reach the external scheduler
        for o in pl["ops"]:
            for s in o:
                k = max(1, round(s["cpu"] * tps))
                s["cpu"] = (k + 0.734561) / tps
                s["read"] = 1.734563 / tps
        pipes.append(pl)
    return dict(name=f"rest-t{tps}-poll{poll}-p{pools}-m{int(multi)}", scheduler="rest", tps=tps, pools=pools, cpus=2, ram=4, overcommit=False, multi=multi,
                duration=10 / tps, pipelines=pipes, uncontended=None, extra_params=dict(rest_poll_interval=poll, rest_scheduler_addr="stub.invalid:1"))


def explore(args):
    sc, bound = args
    acc = dict(execs=0, viol=[], calls=0, rejected=0, outcomes=set(), fps=set(), transitions=0)

    def on_exec(ch, res):
        viol, info = res
        acc["execs"] += 1
        acc["calls"] += info["calls"]
        acc["rejected"] += 1 if info["rejected"] else 0
        acc["transitions"] += info["transitions"]
        acc["fps"] |= {(sc["name"], f) for f in info["fps"]}
        st = info["stats"]
        acc["outcomes"].add((sc["name"], None if st is None else (st["assignments"], st["suspensions"], st["failures"], st["pipelines_all"]["completion_count"]), info["exc"] and info["exc"][:40]))
        for kind, d in viol:
            acc["viol"].append((kind, d, list(ch.choices)))
        if len(acc["viol"]) > 300:
            best = {}
            for v in acc["viol"]:
                if v[0] not in best or len(v[2]) < len(best[v[0]][2]):
                    best[v[0]] = v
            acc["viol"] = list(best.values())

    explore_subtree(lambda ch: run_one(sc, ch), [], bound, on_exec)
    return acc


class Lenient(Chooser):
    """replays a fixed choice list, clamping each choice to the menu at hand"""

    def choose(self, n, label=None):
        if label != "reply":
            # only the replies are scripted (the loop-back server has no other choice points): everything else default
            self.ns.append(n)
            self.choices.append(0)
            self.labels.append(label)
            return 0
        i = sum(1 for l in self.labels if l == "reply")
        c = min(self.prefix[i], n - 1) if i < len(self.prefix) else 0
        self.ns.append(n)
        self.choices.append(c)
        self.labels.append(label)
        return c


def loopback(sc, choices):
    """the same trace over a real loop-back HTTP server (validates the in-process transport)"""
    import requests as real_requests
    texts = []
    ch = Lenient(choices)
    state = {}

    class H(http.server.BaseHTTPRequestHandler):
        def do_POST(self):
            n = int(self.headers.get("Content-Length", 0))
            body = self.rfile.read(n).decode()
            texts.append((self.path, body))
            if self.path == "/init":
                out = {}
            else:
                pay = json.loads(body)
                menu = state["stub"].menu(pay)
                out = menu[ch.choose(len(menu), "reply")]
            b = json.dumps(out).encode()
            self.send_response(200)
            self.send_header("Content-Type", "application/json")
            self.send_header("Content-Length", str(len(b)))
            self.end_headers()
            self.wfile.write(b)

        def log_message(self, *a):
            pass
    try:
        srv = http.server.HTTPServer(("127.0.0.1", 0), H)
    except Exception as e:
        return None, f"cannot bind a loop-back socket: {e}"
    th = threading.Thread(target=srv.serve_forever, daemon=True)
    th.start()
    try:
        state["stub"] = Stub(ch, sc, None)
        sc2 = dict(sc)
        sc2["extra_params"] = dict(sc["extra_params"], rest_scheduler_addr=f"127.0.0.1:{srv.server_address[1]}")
        old = rest.requests
        rest.requests = real_requests
        try:
            w, r, stats, exc = f6.run(sc2)
        finally:
            rest.requests = old
    finally:
        srv.shutdown()
        srv.server_close()
    return (stats, exc, texts), None


def main(tier, seed):
    rep = Report("C19", tier, seed)
    q = tier == "quick"
    bound = 2 if q else 3
    rep.cov["rule"] = (f"F-R: the real run_simulator(scheduler_algo='rest') with requests.post bound to an in-process transport (JSON text both ways) and an external-scheduler stub whose every /schedule reply is a choice point; "
                       f"menu computed from the payload alone (after every reply a second choice point: delivered (default) / lost after the external scheduler processed the request, seen by the caller as read timeout or as connection error; reply default: first ready operator -> first pool with room; none; small/whole-free sizes; all assignable operators of a pipeline; two assignments; suspend a listed running container); "
                       f"ALL reply sequences with <={bound} non-default replies over <=10 calls x poll interval 0,0.5,1,2.5 x tick rate 1,2,10 x pools x container mode; every request compared with ground truth at the instant of the call; "
                       "segment figures tainted (…734561/2/3) must not occur in any request text; timing rule; end statistics = in-process replay of the recorded decisions; one trace per scenario repeated over a real loop-back http.server. "
                       "states = distinct reference-model states; non-trivial = distinct (scenario, decision/outcome counters) classes")
    scs = []
    wls = [[("B", 0, "chain2", ("s2", "s1")), ("Q", 2, "single", ("s1",))], [("I", 0, "fork", ("s1",)), ("B", 1, "single", ("s3",))],
           # a quiet stretch: one pipeline whose operators cross boundaries inside a long multi-operator container, nothing else arrives
           [("B", 0, "chain3", ("s2", "s2", "s1"))]]
    for tps in ((1, 10) if q else (1, 2, 10)):
        for poll in (0, 0.5, 1, 2.5):
            for pools, multi in (((1, True), (2, False)) if q else ((1, True), (2, False), (2, True))):
                for wl in ((wls[:1] + wls[2:]) if q and tps == 10 else wls):
                    scs.append(scenario(tps, poll, pools, multi, wl))
    # bulk: more results in one tick than any per-call cap in the bridge (size follows the constants of rest.py, mc/scale.py)
    from .. import scale as _scale
    nb, sinfo = _scale.size(["scheduler/rest", "executor/assignment", "workload/pipeline"], 40, 4000, factor=1.2)
    wl_b = [("B", 0 if i < nb else 1, "single", ("s1",)) for i in range(nb + nb // 3)] + [("I", 0, "chain2", ("s1", "s2"))]
    sc_b = scenario(1, 0, -(-(nb + 2) // 64), True, wl_b)
    sc_b.update(cpus=64, ram=64, assign_all=True, name=f"rest-bulk-{nb}")
    sc_b["duration"] = 6
    scs_all = [(sc, bound) for sc in scs] + [(sc_b, 0)]
    scs = scs + [sc_b]
    res = pmap(explore, scs_all, chunks=1)
    for sc, acc in zip(scs, res):
        rep.cov["evaluations"] += acc["execs"]
        rep.cov["traces_validated_against_impl"] += acc["execs"]
        rep.cov["transitions"] += acc["transitions"]
        rep.add_states(acc["fps"])
        rep.add_nontrivial(acc["outcomes"])
        for kind, d, choices in acc["viol"]:
            rep.add_violations([Violation("F-R", kind, d, sc, choices, family="C19")])
    rep.part("F-R", scenarios=len(scs), executions=sum(a["execs"] for a in res), schedule_calls=sum(a["calls"] for a in res),
             executions_ended_by_executor_rejection=sum(a["rejected"] for a in res))
    # loop-back conformance of the transport stub
    ok = 0
    for sc in scs[:: max(1, len(scs) // 6)]:
        choices = [0, 0, 2, 0, 1]
        got, err = loopback(sc, choices)
        if err:
            rep.harness_notes.append(err)
            break
        stats, exc, texts = got
        v, info = run_one(sc, Lenient(choices))
        a = None if stats is None else json.dumps(stats.to_dict(), default=str, sort_keys=True)
        b = None if info["stats"] is None else json.dumps(info["stats"], default=str, sort_keys=True)
        if a != b:
            rep.harness_notes.append(f"loop-back run and in-process transport disagree for {sc['name']}: {a} vs {b}")
        else:
            ok += 1
        for path, body in texts:
            for t in TAINTS:
                if t in body:
                    rep.add_violations([Violation("loopback", "leaks-true-resource-needs", f"HTTP body of {path} contains ...{t}", sc, choices, family="C19")])
    rep.part("loopback-http", traces_agreeing_with_in_process_transport=ok)
    rep.cov["bounds"] = dict(deviations=bound, calls_per_run="<=10", ticks=10)
    rep.sample(dict(scenario=scs[0], reply_choice_sequence=[0, 0, 2]))
    rep.assumptions.append("the Go reference scheduler is not built (no Go toolchain); go/eudoxia/types.go field names are compared statically only")
    return rep.finish()


def replay(rec):
    sc = rec["scenario"]
    viol, info = run_one(sc, Chooser(rec["choices"]))
    print(json.dumps(dict(calls=info["calls"], exc=info["exc"], stats=info["stats"]), default=str))
    hit = [v for v in viol if v[0] == rec["kind"]]
    for v in viol:
        print(("REPRODUCED " if v in hit else "other      "), v[0], v[1][:400])
    return 1 if hit else 0
