"""C14 - trace files round-trip: what is written is what is read, for any pipeline DAG."""
import io, csv, itertools, json
from ..report import Report, Violation
from ..explorer import pmap, chunked, NPROC
from ..families import tracefile as tf, f0
from .. import boot

boot.load()
from eudoxia.workload.pipeline import Pipeline, Segment
from eudoxia.workload.csv_io import CSVWorkloadReader, CSVWorkloadWriter, WorkloadTraceGenerator
from eudoxia.utils import Priority

LAWS = ["const", "log", "sqrt", "linear3", "linear7", "squared", "exp"]
VALUES = [0.0, 1.0, 15.0, 0.1, 37.5, 1e-9, 1e9, 1 / 3]   # floats: what the reader produces, so a rewrite is textually identical
MEMS = [None, 0.0, 0.5]


def build_pipeline(pid, prio, parents, vals):
    """vals[i] = (cpu, law, mem, read)"""
    p = Pipeline(pid, prio)
    ops = []
    for i, par in enumerate(parents):
        op = p.new_operator([ops[j] for j in par] or None)
        cpu, law, mem, read = vals[i]
        op.add_segment(Segment(baseline_cpu_seconds=cpu, cpu_scaling=law, memory_gb=mem, storage_read_gb=read))
        ops.append(op)
    return p


def describe(p):
    """structure of a pipeline independent of ids: list of (parent index set, cpu, law, mem, read) in DAG storage order"""
    ops = list(p.values.node_lookup.values())
    idx = {o: i for i, o in enumerate(ops)}
    out = []
    for o in ops:
        seg = o.get_segments()
        if len(seg) != 1:
            return ("bad-segments", len(seg))
        s = seg[0]
        law = next((n for n, f in Segment.SCALING_FUNCS.items() if f == s.scaling_func), None)
        out.append((frozenset(idx[q] for q in o.parents), float(s.baseline_cpu_seconds), law,
                    None if s.memory_gb is None else float(s.memory_gb), float(s.storage_read_gb)))
    return (p.priority.name, tuple(out))


def roundtrip_case(case):
    """case: list of arrival groups; each group = (tick, [ (prio_idx, parents, vals) ... ])"""
    tps, groups = case
    by_tick = {}
    orig = []
    n = 0
    for tick, pls in groups:
        lst = []
        for (pi, parents, vals) in pls:
            n += 1
            p = build_pipeline(f"src{n}", tf.PRIOS[pi], parents, vals)
            lst.append(p)
            orig.append((tick, describe(p)))
        by_tick[tick] = lst
    horizon = max(t for t, _ in groups) + 1
    probs = []
    try:
        text, nrows = tf.write_trace(tf.TickScript(by_tick), tps, horizon / tps + 0.5 / tps)
    except Exception as e:
        return [("write-raised", f"{type(e).__name__}: {e}")], 0
    try:
        rd = CSVWorkloadReader(io.StringIO(text))
        back = []
        for batch in rd.batch_by_arrival():
            for pa in batch:
                back.append((pa.arrival_seconds, describe(pa.pipeline)))
    except Exception as e:
        return [("read-raised", f"{type(e).__name__}: {e}; file:\n{text}")], 0
    if len(back) != len(orig):
        probs.append(("pipeline-count", f"wrote {len(orig)} pipelines, read {len(back)}"))
    for k, ((tick, d0), (arr, d1)) in enumerate(zip(orig, back)):
        if d0 != d1:
            probs.append(("pipeline-differs", f"pipeline #{k}: written {d0}, read back {d1}"))
        if abs(arr - tick / tps) > 1e-9 * max(1, tick / tps):
            probs.append(("arrival-differs", f"pipeline #{k}: emitted in tick {tick} at {tps}/s, read back arrival {arr}"))
    # read -> write again reproduces every row apart from the arrival column
    try:
        rd = CSVWorkloadReader(io.StringIO(text))
        by2 = {}
        k = 0
        for batch in rd.batch_by_arrival():
            by2[k] = [pa.pipeline for pa in batch]
            k += 1
        text2, _ = tf.write_trace(tf.TickScript(by2), 1, k + 0.5)
        r1 = list(csv.DictReader(io.StringIO(text)))
        r2 = list(csv.DictReader(io.StringIO(text2)))
        if len(r1) != len(r2):
            probs.append(("rewrite-row-count", f"{len(r1)} rows, rewritten {len(r2)}"))
        for a, b in zip(r1, r2):
            a = dict(a); b = dict(b)
            a.pop("arrival_seconds"); b.pop("arrival_seconds")
            if a != b:
                probs.append(("rewrite-row-differs", f"{a} rewritten as {b}"))
                break
    except Exception as e:
        probs.append(("rewrite-raised", f"{type(e).__name__}: {e}"))
    return probs, len(orig)


def cases(tier):
    out = []
    nmax = 5 if tier == "quick" else 6
    ds = f0.dags(nmax)
    cyc = itertools.cycle(range(10**9))
    for di, parents in enumerate(ds):
        vals = []
        for i in range(len(parents)):
            k = di + i
            vals.append((VALUES[k % len(VALUES)], LAWS[(k // 2) % len(LAWS)], MEMS[k % len(MEMS)], VALUES[(k + 3) % len(VALUES)]))
        pls = [(di % 3, parents, vals)]
        # 1-3 pipelines per arrival
        groups = [(di % 4, pls * (1 + di % 3))]
        if di % 2:
            groups.append((di % 4 + 2, [((di + 1) % 3, parents, vals[::-1])]))
        out.append(([1, 2, 10, 1000][di % 4], groups))
    # full per-field product on a single-operator pipeline
    for cpu in VALUES:
        for law in LAWS:
            for mem in MEMS + [1e-9, 1e9]:
                for read in VALUES:
                    out.append((1, [(0, [(2, [[]], [(cpu, law, mem, read)])])]))
    # values that differ only far behind the decimal point (and exact zeros next to tiny values), in two rows of one file:
    # two operators of one pipeline, and two pipelines several arrivals apart - every row must come back with ITS values
    NEAR = {"cpu": [0.0, 2.5e-10, 4e-10, 0.1, 0.1 + 1e-12, 0.3, 0.30000000000000004, 123456.12345678912, 123456.12345678948, 1e-300],
            "mem": [None, 0.0, 1e-12, 7e-10, 0.5, 0.5 + 1e-13, 1e9, 1e9 + 1e-6],
            "read": [0.0, 3e-10, 9e-10, 55.0, 55.00000000000001, 1e-300]}
    base = dict(cpu=1.0, mem=0.5, read=2.0)
    for field, vs in NEAR.items():
        for v1 in vs:
            for v2 in vs:
                if v1 == v2 and v1 is not None:
                    continue
                a = dict(base); a[field] = v1
                b = dict(base); b[field] = v2
                va = (a["cpu"], "const", a["mem"], a["read"])
                vb = (b["cpu"], "const", b["mem"], b["read"])
                out.append((1, [(0, [(2, [[], [0]], [va, vb])])]))
                out.append((1, [(0, [(2, [[]], [va])]), (1, [(1, [[], [0]], [(5.0, "sqrt", None, 1.0), (3.0, "const", 0.25, 4.0)])]), (3, [(0, [[]], [vb])])]))
    return out


VALID = [
    "p1,0.0,INTERACTIVE,op1,,1,const,,1",
    "p1,,,op2,op1,2,linear3,0.5,2",
    "p1,,,op3,op1;op2,3,sqrt,0,3",
    "p2,0.5,QUERY,op1,,1,const,,1",
    "p3,0.5,BATCH_PIPELINE,op1,,1,exp,,1",
    "p3,,,op2,op1,1,log,,1",
]


def corruptions():
    """every single-rule corruption of the valid file, at each position where the rule applies"""
    out = []
    rows = [r.split(",") for r in VALID]
    first = [0, 3, 4]
    later = [1, 2, 5]

    def emit(name, rs):
        out.append((name, tf.HEADER + "\n" + "\n".join(",".join(r) for r in rs) + "\n"))
    for i in first:
        r = [list(x) for x in rows]; r[i][2] = ""; emit(f"missing priority on first row {i}", r)
        r = [list(x) for x in rows]; r[i][1] = ""; emit(f"missing arrival on first row {i}", r)
        r = [list(x) for x in rows]; r[i][2] = "URGENT"; emit(f"unknown priority on row {i}", r)
        r = [list(x) for x in rows]; r[i][2] = "query"; emit(f"lower-case priority on row {i}", r)
    for i in later:
        for bad in ("URGENT", "query", "Batch_Pipeline", "2", " INTERACTIVE"):
            r = [list(x) for x in rows]; r[i][2] = bad; emit(f"priority {bad!r} on later row {i}", r)
        for bad in ("0", "0.0", "-0.0", "1e-9", " 3"):
            r = [list(x) for x in rows]; r[i][1] = bad; emit(f"arrival {bad!r} on later row {i}", r)
        r = [list(x) for x in rows]; r[i][2] = "BATCH_PIPELINE"; emit(f"priority set on later row {i}", r)
        r = [list(x) for x in rows]; r[i][1] = "0.0"; emit(f"arrival set on later row {i}", r)
        r = [list(x) for x in rows]; r[i][4] = "op9"; emit(f"undefined parent on row {i}", r)
        r = [list(x) for x in rows]; r[i][4] = r[i][3]; emit(f"self parent on row {i}", r)
    for i in range(len(rows)):
        for bad in ("cubic", "CONST", "", "linear", "Linear3"):
            r = [list(x) for x in rows]; r[i][6] = bad; emit(f"scaling law {bad!r} on row {i}", r)
    for i in later:
        for bad in ("op9", "op1;op9", "OP1", "1"):
            r = [list(x) for x in rows]; r[i][4] = bad; emit(f"parents {bad!r} on row {i}", r)
    r = [list(x) for x in rows]; r[1][4] = "op3"; emit("parent defined later (row 1 -> op3)", r)
    return out


def malformed():
    probs = []
    n = 0
    # the valid file must load
    try:
        rd = CSVWorkloadReader(io.StringIO(tf.HEADER + "\n" + "\n".join(VALID) + "\n"))
        got = [pa.pipeline.pipeline_id for b in rd.batch_by_arrival() for pa in b]
        if got != ["p1", "p2", "p3"]:
            probs.append(("valid-file", f"valid file loaded as {got}", None))
    except Exception as e:
        probs.append(("valid-file", f"valid file refused: {type(e).__name__}: {e}", None))
    for name, text in corruptions():
        n += 1
        try:
            rd = CSVWorkloadReader(io.StringIO(text))
            got = [(pa.arrival_seconds, describe(pa.pipeline)) for b in rd.batch_by_arrival() for pa in b]
            probs.append(("malformed-accepted", f"{name}: loaded without error as {len(got)} pipelines", text))
        except Exception:
            pass
    return probs, n


def work(chunk):
    out = dict(n=0, pipes=0, viol=[])
    for c in chunk:
        probs, np_ = roundtrip_case(c)
        out["n"] += 1
        out["pipes"] += np_
        for kind, d in probs:
            out["viol"].append((kind, d, c))
    return out


def main(tier, seed):
    rep = Report("C14", tier, seed)
    rep.cov["rule"] = ("every DAG on <=5 (quick) / <=6 (thorough) operators x value alphabets (0,1,15,0.1,37.5,1e-9,1e9,1/3; 7 laws; memory unset/0/0.5) x 3 priorities x 1-3 pipelines per arrival: "
                       "write with the real generator-to-rows + writer, read with the real reader, compare structure; read->write again, compare rows (arrival column excluded); "
                       "full per-field product on a single-operator pipeline; every single-rule corruption of a valid 3-pipeline file must be refused. "
                       "pairs of rows whose values differ only below 1e-9 (tiny vs zero, 0.1 vs 0.1+1e-12, large numbers) in one pipeline and several arrivals apart; states = distinct files written; non-trivial = files with multi-parent operators, several roots, memory 0 or non-integer values")
    cs = cases(tier)
    res = pmap(work, chunked(cs, NPROC * 4), chunks=1)
    for r in res:
        rep.cov["evaluations"] += r["n"]
        rep.cov["transitions"] += r["pipes"]
        rep.cov["traces_validated_against_impl"] += r["n"]
        for kind, d, c in r["viol"]:
            rep.add_violations([Violation("roundtrip", kind, d, dict(case=c), [], family="C14")])
    rep.add_states({json.dumps(c, default=str) for c in cs})
    rep.add_nontrivial({json.dumps(c, default=str) for c in cs if any(len(par) > 1 for _, pls in c[1] for _, parents, _ in pls for par in parents) or any(v[2] == 0 for _, pls in c[1] for _, _, vals in pls for v in vals)})
    probs, n = malformed()
    rep.cov["evaluations"] += n
    for kind, d, text in probs:
        rep.add_violations([Violation("malformed", kind, d, dict(text=text), [], family="C14m")])
    rep.part("roundtrip", files=len(cs))
    rep.part("malformed", corrupted_files=n)
    rep.sample(dict(case=cs[37]))
    rep.sample(dict(corruption=corruptions()[5][0]))
    return rep.finish()


def replay(rec):
    sc = rec["scenario"]
    if rec.get("family") == "C14m":
        print(sc["text"])
        try:
            rd = CSVWorkloadReader(io.StringIO(sc["text"]))
            got = [pa.pipeline.pipeline_id for b in rd.batch_by_arrival() for pa in b]
            print("loaded:", got)
            return 1
        except Exception as e:
            print("refused:", type(e).__name__, e)
            return 0
    c = sc["case"]
    case = (c[0], [(t, [(pi, parents, [tuple(v) for v in vals]) for pi, parents, vals in pls]) for t, pls in c[1]])
    probs, _ = roundtrip_case(case)
    for p in probs:
        print("PROBLEM", p)
    return 1 if probs else 0
