"""C18 - overbook: one operator and one CPU per container, full-pool RAM, CPU-bound."""
from .. import simcheck


def main(tier, seed):
    rep = simcheck.sim_main("C18", tier, seed, ["F5:overbook,wide:overbook,branch:overbook,scale:overbook"])
    return rep.finish()


def replay(rec):
    return simcheck.replay(rec)
