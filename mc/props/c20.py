"""C20 - trace tools change only arrival times, within their stated bounds."""
import io, os, sys, csv, math, json, tempfile, shutil, itertools
from decimal import Decimal
from fractions import Fraction as Fr
from ..report import Report, Violation
from ..explorer import pmap, Chooser, explore_subtree
from ..families import tracefile as tf
from .. import boot

boot.load()
import numpy as np
import eudoxia.tools as tools
from eudoxia.workload import WorkloadGenerator
from eudoxia.simulator import parse_args_with_defaults


class Quiet:
    def __enter__(self):
        self.o, self.e = sys.stdout, sys.stderr
        sys.stdout = io.StringIO()
        sys.stderr = io.StringIO()

    def __exit__(self, *a):
        sys.stdout, sys.stderr = self.o, self.e


def run_tool(fn, text, *args, **kw):
    d = tempfile.mkdtemp(prefix="verif_c20_")
    try:
        i, o = os.path.join(d, "in.csv"), os.path.join(d, "out.csv")
        with open(i, "w") as f:
            f.write(text)
        try:
            with Quiet():
                fn(i, o, *args, **kw)
            return open(o).read()
        except (SystemExit, Exception) as e:
            # the tool refused or crashed on a valid input: that is an observation, not a harness problem
            return f"TOOL-FAILED {type(e).__name__}: {e}"
    finally:
        shutil.rmtree(d, ignore_errors=True)


def rows_of(text):
    return list(csv.DictReader(io.StringIO(text)))


def dval(s):
    return Fr(Decimal(s))


# ------------------------------------------------------------------ snap
def snap_case(args):
    tps, lo, hi, mode = args
    lines = []
    arr = []
    n = 0
    for k in range(lo, hi):
        pts = [Fr(k, tps)]
        if mode == "fine":
            pts += [Fr(k, tps) + f / tps for f in (Fr(1, 4), Fr(1, 2), Fr(3, 4), Fr(1, 10**4), 1 - Fr(1, 10**4))]
            if Fr(k + 1, tps) < 20:
                # a hair (0.5 picoseconds) below / above a boundary: 13+ significant decimals, still far more than float rounding
                pts += [Fr(k + 1, tps) - Fr(5, 10**13), Fr(k, tps) + Fr(5, 10**13)]
        else:
            pts = [Fr(k), Fr(k) + Fr(1, 2)]   # whole seconds and mid-points (tick rates without finite decimals)
        for x in pts:
            from .c13 import dec_text
            t = dec_text(x)
            if t is None:
                continue
            n += 1
            lines.append(tf.row_line(f"p{n}", t, "BATCH_PIPELINE", "op1", "", cpu=1.5, scaling="sqrt", mem="0.5", read=2.25))
            lines.append(tf.row_line(f"p{n}", "", "", "op2", "op1", cpu=2, scaling="const", mem="", read=0.1))
            arr.append(t)
    text = tf.HEADER + "\n" + "\n".join(lines) + "\n"
    viol = []
    try:
        out1 = run_tool(tools.snap_command, text, tps)
        out2 = run_tool(tools.snap_command, out1, tps)
    except BaseException as e:
        return dict(n=n, viol=[("snap-raised", f"{type(e).__name__}: {e}", dict(tps=tps, lo=lo))], states=set())
    if out1.startswith("TOOL-FAILED") or out2.startswith("TOOL-FAILED"):
        return dict(n=n, viol=[("snap-raised", (out1 if out1.startswith("TOOL-FAILED") else out2), dict(tps=tps, lo=lo))], states=set())
    r0, r1, r2 = rows_of(text), rows_of(out1), rows_of(out2)
    if len(r0) != len(r1):
        viol.append(("row-count", f"{len(r0)} rows in, {len(r1)} out", dict(tps=tps)))
    for a, b, c in zip(r0, r1, r2):
        for col in a:
            if col != "arrival_seconds" and a[col] != b[col]:
                viol.append(("column-changed", f"{col}: {a[col]!r} -> {b[col]!r}", dict(tps=tps, arrival=a["arrival_seconds"])))
        if a["arrival_seconds"] == "":
            if b["arrival_seconds"] != "":
                viol.append(("blank-arrival-filled", f"{b}", dict(tps=tps)))
            continue
        x, y, z = dval(a["arrival_seconds"]), dval(b["arrival_seconds"]), dval(c["arrival_seconds"])
        sc = dict(tps=tps, arrival=a["arrival_seconds"], snapped=b["arrival_seconds"], snapped_twice=c["arrival_seconds"])
        tol = Fr(1, 2**46) * max(x, Fr(1, tps))     # the output is printed as a float (53-bit mantissa)
        grid = math.floor(x * tps) / Fr(tps)
        if y > x + tol:
            viol.append(("moved-up", f"{a['arrival_seconds']} -> {b['arrival_seconds']} at {tps}/s", sc))
        elif x - y >= Fr(1, tps) - tol and x - y > tol:
            viol.append(("moved-a-tick-or-more", f"{a['arrival_seconds']} -> {b['arrival_seconds']} at {tps}/s (a tick is {float(Fr(1, tps))})", sc))
        elif abs(y - grid) > tol:
            viol.append(("not-on-boundary", f"{a['arrival_seconds']} -> {b['arrival_seconds']} at {tps}/s, nearest boundary below is {float(grid)}", sc))
        if abs(z - y) > tol:
            viol.append(("not-idempotent", f"{a['arrival_seconds']} -> {b['arrival_seconds']} -> {c['arrival_seconds']} at {tps}/s", sc))
    return dict(n=n, viol=viol, states={(tps, a) for a in arr})


# ------------------------------------------------------------------ jitter
class EnumRng:
    """stands in for numpy's generator inside tools.jitter_command: uniform(0, delta) answers are
    choice points over {0, delta/2, just under delta}"""

    def __init__(self, ch, log):
        self.ch = ch
        self.log = log

    def uniform(self, lo=0.0, hi=1.0, size=None):
        if size is not None:
            import numpy as _np
            return _np.array([self.uniform(lo, hi) for _ in range(int(_np.prod(size)))])
        k = self.ch.choose(3, "uniform")
        v = [lo, (lo + hi) / 2, lo + (hi - lo) * (1 - 2 ** -20)][k]
        self.log.append((lo, hi, v))
        return v


def jitter_text(arrs):
    lines = []
    for n, (a, nops) in enumerate(arrs):
        lines.append(tf.row_line(f"p{n+1}", a, ["QUERY", "INTERACTIVE", "BATCH_PIPELINE"][n % 3], "op1", "", cpu=1.5 + n, scaling="sqrt", mem="0.5", read=2.25))
        for j in range(1, nops):
            lines.append(tf.row_line(f"p{n+1}", "", "", f"op{j+1}", f"op{j}", cpu=2, scaling="const", mem="", read=0.1))
    return tf.HEADER + "\n" + "\n".join(lines) + "\n"


def judge_jitter(text, out, delta, what):
    viol = []
    if out.startswith("TOOL-FAILED"):
        return [("tool-refused-valid-input", f"jitter with delta {delta}: {out}", what)]
    r0, r1 = rows_of(text), rows_of(out)
    g0 = group(r0)
    g1 = group(r1)
    if sorted(g0) != sorted(g1):
        viol.append(("pipelines-changed", f"{sorted(g0)} -> {sorted(g1)}", what))
        return viol
    if len(r0) != len(r1):
        viol.append(("row-count", f"{len(r0)} -> {len(r1)}", what))
    newarr = {}
    for pid, rows in g1.items():
        a0 = g0[pid]
        for x, y in zip(a0, rows):
            for col in x:
                if col != "arrival_seconds" and x[col] != y[col]:
                    viol.append(("column-changed", f"{pid} {col}: {x[col]!r} -> {y[col]!r}", what))
        if any(r["arrival_seconds"] != "" for r in rows[1:]):
            viol.append(("arrival-on-later-row", f"{pid}", what))
        x, y = dval(a0[0]["arrival_seconds"]), dval(rows[0]["arrival_seconds"])
        newarr[pid] = y
        tol = Fr(1, 10**9) * max(1, x)
        if y < x - tol or y > x + Fr(Decimal(repr(delta))) + tol:
            viol.append(("jitter-out-of-bounds", f"{pid}: {a0[0]['arrival_seconds']} -> {rows[0]['arrival_seconds']} with delta {delta}", what))
    # contiguity and ascending order
    order = []
    for r in r1:
        if not order or order[-1] != r["pipeline_id"]:
            order.append(r["pipeline_id"])
    if len(order) != len(set(order)):
        viol.append(("rows-not-contiguous", f"{order}", what))
    seq = [newarr[p] for p in order if p in newarr]
    if any(seq[i] > seq[i + 1] for i in range(len(seq) - 1)):
        viol.append(("not-ascending", f"{[float(s) for s in seq]}", what))
    # stable: equal new arrivals keep input order
    inorder = list(g0)
    for i in range(len(order) - 1):
        if newarr.get(order[i]) == newarr.get(order[i + 1]) and inorder.index(order[i]) > inorder.index(order[i + 1]):
            viol.append(("not-stable", f"{order[i]} and {order[i+1]} have equal arrivals but swapped", what))
    return viol


def group(rows):
    g = {}
    for r in rows:
        g.setdefault(r["pipeline_id"], []).append(r)
    return g


def jitter_enum(args):
    arrs, delta = args
    text = jitter_text(arrs)
    viol = []
    execs = 0
    consulted = 0
    outs = set()
    real = np.random.default_rng

    def run(ch):
        nonlocal consulted
        log = []
        tools.np.random.default_rng = lambda seed=None: EnumRng(ch, log)
        try:
            out = run_tool(tools.jitter_command, text, delta, seed=1)
        finally:
            tools.np.random.default_rng = real
        consulted += len(log)
        return out, log

    def on_exec(ch, res):
        nonlocal execs
        out, log = res
        execs += 1
        outs.add(out)
        for v in judge_jitter(text, out, delta, dict(arrivals=arrs, delta=delta, answers=[x[2] for x in log])):
            viol.append(v)
        for lo, hi, _ in log:
            if lo != 0 or abs(hi - delta) > 1e-12:
                viol.append(("uniform-arguments", f"uniform({lo}, {hi}) requested, delta is {delta}", dict(arrivals=arrs, delta=delta)))

    explore_subtree(run, [], 99, on_exec)
    return dict(n=execs, viol=viol, consulted=consulted, outcomes=len(outs), states={(json.dumps(arrs), delta, o) for o in outs})


def jitter_big(args):
    """n pipelines one tick apart at 100000 ticks/s (all within one delta of each other), some with several operators"""
    n, delta, seed = args
    arrs = [(repr(k / 100000.0), 2 if k % 97 == 0 else 1) for k in range(n)]
    text = jitter_text(arrs)
    out = run_tool(tools.jitter_command, text, delta, seed=seed)
    what = dict(pipelines=n, delta=delta, seed=seed, what="jitter-scale")
    viol = judge_jitter(text, out, delta, what)
    seen = set()
    viol = [v for v in viol if not (v[0] in seen or seen.add(v[0]))][:6]
    return dict(n=1, viol=viol, states={("big", n, delta)})


def jitter_seeds(args):
    seed, delta = args
    arrs = [("0.0", 2), ("0.0", 1), ("0.05", 3), ("0.05", 1), ("0.3", 1), ("1.0", 2), ("1.02", 1), ("7", 1)]
    text = jitter_text(arrs)
    viol = []
    a = run_tool(tools.jitter_command, text, delta, seed=seed)
    b = run_tool(tools.jitter_command, text, delta, seed=seed)
    c = run_tool(tools.jitter_command, text, delta, seed=seed + 1)
    what = dict(seed=seed, delta=delta)
    if a != b:
        viol.append(("not-reproducible", f"seed {seed} gave two different files", what))
    if delta > 0 and a == c:
        viol.append(("seed-ignored", f"seeds {seed} and {seed+1} gave the same file", what))
    viol += judge_jitter(text, a, delta, what)
    return dict(n=3, viol=viol, states={("seed", seed, delta)})


def jitter_hashseeds(args):
    """the real CLI in fresh interpreters under different PYTHONHASHSEED values: same seed => same file"""
    import subprocess
    seed, delta = args
    arrs = [("0.0", 2), ("0.0", 1), ("0.05", 3), ("0.05", 1), ("0.3", 1), ("1.0", 2), ("1.02", 1), ("7", 1)]
    text = jitter_text(arrs)
    d = tempfile.mkdtemp(prefix="verif_c20h_")
    viol = []
    outs = {}
    try:
        i = os.path.join(d, "in.csv")
        with open(i, "w") as f:
            f.write(text)
        for hs in ("0", "1", "2", "3"):
            o = os.path.join(d, f"out{hs}.csv")
            env = dict(os.environ, PYTHONHASHSEED=hs, PYTHONPATH=boot.REPO)
            r = subprocess.run([sys.executable, "-m", "eudoxia", "tools", "jitter", i, o, str(delta), "-s", str(seed)], capture_output=True, text=True, env=env, cwd=d)
            if r.returncode != 0 or not os.path.exists(o):
                viol.append(("cli-failed", f"PYTHONHASHSEED={hs}: rc={r.returncode} {r.stderr[-300:]}", dict(seed=seed, delta=delta, hashseed=hs)))
                continue
            outs[hs] = rows_of(open(o).read())
        ref = outs.get("0")
        for hs, rows in outs.items():
            if ref is not None and rows != ref:
                viol.append(("not-reproducible-across-processes", f"seed {seed}, delta {delta}: PYTHONHASHSEED={hs} wrote different arrivals than PYTHONHASHSEED=0", dict(seed=seed, delta=delta, hashseed=hs)))
            viol += judge_jitter(text, "\n".join([tf.HEADER] + [",".join(r[c] for c in tf.HEADER.split(",")) for r in rows]) + "\n", delta, dict(seed=seed, delta=delta, hashseed=hs))
    finally:
        shutil.rmtree(d, ignore_errors=True)
    return dict(n=len(outs), viol=viol, states={("hashseed", seed, delta)})


# ------------------------------------------------------------------ sensitivity-sample
def sample_seeds(start_seed, nsamples=None):
    nsamples = nsamples or (11 if start_seed == 42 else 4)
    d = tempfile.mkdtemp(prefix="verif_c20s_")
    viol = []
    real = tools.sensitivity_command
    try:
        params = dict(duration=6, ticks_per_second=10, waiting_seconds_mean=0.5, num_pipelines=2, num_operators=3, random_seed=7)
        toml = os.path.join(d, "p.toml")
        with open(toml, "w") as f:
            for k, v in params.items():
                f.write(f"{k} = {v}\n")
        tools.sensitivity_command = lambda *a, **k: None   # only the generated workload is of interest

        class _Pool:   # the command fans out over a process pool; run its tasks in-process, in order
            def __init__(self, processes=None):
                pass

            def __enter__(self):
                return self

            def __exit__(self, *a):
                return False

            def map(self, fn, tasks):
                out = []
                for t in tasks:
                    so, se = sys.stdout, sys.stderr   # a task redirects its (worker) process's streams for good
                    try:
                        out.append(fn(t))
                    finally:
                        sys.stdout, sys.stderr = so, se
                return out

        class _MP:
            Pool = _Pool
        real_mp = tools.multiprocessing
        tools.multiprocessing = _MP
        texts = []
        o, e = sys.stdout, sys.stderr
        try:
            try:
                sys.stdout, sys.stderr = io.StringIO(), io.StringIO()
                tools.sensitivity_sample_command(toml, d, nsamples, start_seed=start_seed, jitter_seed=1)
            except BaseException as ex:
                sys.stdout, sys.stderr = o, e
                viol.append(("command-raised", f"{type(ex).__name__}: {ex}", dict(start_seed=start_seed)))
            sys.stdout, sys.stderr = o, e
            for i in range(nsamples):
                f = os.path.join(d, f"w{i}.csv")
                if not os.path.exists(f):
                    viol.append(("task-failed", f"sample {i}: no workload written", dict(start_seed=start_seed, i=i)))
                    continue
                texts.append(open(f).read())
        finally:
            sys.stdout, sys.stderr = o, e
            tools.multiprocessing = real_mp
        for i, t in enumerate(texts):
            p = parse_args_with_defaults(dict(params, random_seed=start_seed + i))
            gen = WorkloadGenerator(**p)
            want, _ = tf.write_trace(gen, p["ticks_per_second"], p["duration"])
            if rows_of(t) != rows_of(want):
                viol.append(("sample-not-from-its-seed", f"workload {i} is not the workload of seed {start_seed + i}", dict(start_seed=start_seed, i=i)))
        for i in range(len(texts)):
            for j in range(i + 1, len(texts)):
                if rows_of(texts[i]) == rows_of(texts[j]):
                    viol.append(("samples-identical", f"workloads {i} and {j} (seeds {start_seed+i}, {start_seed+j}) are the same file", dict(start_seed=start_seed, i=i, j=j)))
    finally:
        tools.sensitivity_command = real
        shutil.rmtree(d, ignore_errors=True)
    return dict(n=nsamples, viol=viol, states={("sample", start_seed)})


def main(tier, seed):
    rep = Report("C20", tier, seed)
    q = tier == "quick"
    K = 2000 if q else 50000
    rep.cov["rule"] = (f"snap: for tick rates 1,2,4,5,8,10,20,25,50,100,1000,10^4,10^5 every grid point k/tps (k<={K}) as a short decimal plus off-grid points (1/4,1/2,3/4, 1e-4 inside either end); "
                       "for 3,7,60 whole seconds and mid-points; exact Decimal oracle: never up, by less than a tick, onto a boundary, idempotent, other columns/rows intact. "
                       "jitter: numpy's generator replaced by an enumerating one (answers 0, delta/2, just under delta): ALL answer sequences for traces of <=4 pipelines with ties and gaps<delta; real generator for seeds; "
                       "sensitivity-sample: _sensitivity_task in-process for i=0..3 must write the workload of seed start_seed+i. states = distinct (tick rate, arrival) / (trace, answers) points")
    jobs = []
    for tps in [1, 2, 4, 5, 8, 10, 20, 25, 50, 100, 1000, 10**4, 10**5]:
        for lo in range(0, K + 1, 500):
            jobs.append((tps, lo, min(lo + 500, K + 1), "fine"))
    for tps in [3, 7, 60]:
        jobs.append((tps, 0, 300 if q else 3000, "coarse"))
    res = pmap(snap_case, jobs, chunks=1)
    tot = 0
    for r in res:
        tot += r["n"]
        rep.add_states(r["states"])
        for kind, d, sc in r["viol"]:
            rep.add_violations([Violation("snap", kind, d, sc, [], family="snap")])
    rep.part("snap", arrivals=tot, files=len(jobs))
    rep.cov["evaluations"] += tot
    rep.cov["transitions"] += 2 * tot
    # jitter, enumerated
    traces = [[("0.0", 1), ("0.0", 2)], [("0.0", 1), ("0.04", 1), ("0.04", 2)], [("1.0", 2), ("1.05", 1), ("1.05", 1), ("1.2", 1)],
              [("0.5", 1), ("0.5", 1), ("0.5", 1)], [("0.0", 1), ("0.099", 1), ("0.2", 2), ("5", 1)]]
    jjobs = [(t, d) for t in traces for d in ((0.1, 0.0) if q else (0.1, 0.0, 0.05, 2.5))]
    res = pmap(jitter_enum, jjobs, chunks=1)
    ex = 0
    for r in res:
        ex += r["n"]
        rep.add_states(r["states"])
        for kind, d, sc in r["viol"]:
            rep.add_violations([Violation("jitter-enum", kind, d, sc, [], family="jitter")])
    consulted = sum(r["consulted"] for r in res)
    if consulted == 0:
        rep.harness_notes.append("jitter no longer consults numpy.random.default_rng(...).uniform: enumerating layer saw no draw (reduced coverage, not a violation)")
    rep.part("jitter-enumerated", executions=ex, uniform_draws_answered=consulted, distinct_outputs=sum(r["outcomes"] for r in res))
    rep.cov["evaluations"] += ex
    rep.cov["traces_validated_against_impl"] += ex
    rep.cov["transitions"] += consulted
    res = pmap(jitter_seeds, [(s, d) for s in range(seed, seed + (64 if q else 1000)) for d in (0.1, 0.0)], chunks=None)
    for r in res:
        rep.cov["evaluations"] += r["n"]
        rep.add_states(r["states"])
        for kind, d, sc in r["viol"]:
            if kind == "seed-ignored" and sc["delta"] == 0:
                continue
            rep.add_violations([Violation("jitter-seeds", kind, d, sc, [], family="jitter")])
    rep.part("jitter-seeds", seeds=len(res) // 2)
    # long and dense traces (sizes follow the constants of tools.py, see mc/scale.py): many pipelines within one delta
    from .. import scale as _scale
    nbig, sinfo = _scale.size(["tools.py", "workload/csv_io"], 300, 60000)
    res = pmap(jitter_big, [(nbig, 0.2, seed), (nbig, 0.0, seed), (max(50, nbig // 7), 0.05, seed + 1)], chunks=1)
    for r in res:
        rep.cov["evaluations"] += r["n"]
        rep.add_states(r["states"])
        for kind, d, sc in r["viol"]:
            rep.add_violations([Violation("jitter-scale", kind, d, sc, [], family="jitter-big")])
    rep.part("jitter-scale", pipelines=nbig, sizing=sinfo)
    res = pmap(jitter_hashseeds, [(seed + 7, 0.1), (seed + 8, 0.25)], chunks=1)
    for r in res:
        rep.cov["evaluations"] += r["n"]
        rep.add_states(r["states"])
        for kind, d, sc in r["viol"]:
            rep.add_violations([Violation("jitter-processes", kind, d, sc, [], family="jitter")])
    rep.part("jitter-processes", hash_seeds=4, traces=2)
    res = pmap(sample_seeds, [42, 0, 1000 + seed], chunks=1)
    for r in res:
        rep.cov["evaluations"] += r["n"]
        rep.add_states(r["states"])
        for kind, d, sc in r["viol"]:
            rep.add_violations([Violation("sensitivity-sample", kind, d, sc, [], family="sample")])
    rep.part("sensitivity-sample", start_seeds=3, samples=[11, 4, 4])
    rep.add_nontrivial({s for s in rep._state_hashes if len(s) == 2 and isinstance(s[1], str) and Fr(Decimal(s[1])) != Fr(float(s[1]))} | {s for s in rep._state_hashes if len(s) == 3})
    rep.sample(dict(tool="snap", tps=100, arrival="0.29", must_stay="0.29"))
    rep.sample(dict(tool="jitter", trace=traces[1], delta=0.1, answers=[0.05, 0.0, 0.0999999]))
    return rep.finish()


def replay(rec):
    sc = rec["scenario"]
    fam = rec.get("family")
    if fam == "snap":
        text = tf.HEADER + "\n" + tf.row_line("p1", sc["arrival"], "BATCH_PIPELINE", "op1", "") + "\n"
        o1 = run_tool(tools.snap_command, text, sc["tps"])
        o2 = run_tool(tools.snap_command, o1, sc["tps"])
        a, b = rows_of(o1)[0]["arrival_seconds"], rows_of(o2)[0]["arrival_seconds"]
        x = dval(sc["arrival"])
        grid = math.floor(x * sc["tps"]) / Fr(sc["tps"])
        print(f"snap {sc['arrival']} at {sc['tps']}/s -> {a} -> {b}; exact boundary below: {float(grid)}")
        bad = abs(dval(a) - grid) > Fr(1, 10**9) or abs(dval(b) - dval(a)) > Fr(1, 10**9)
        return 1 if bad else 0
    print(json.dumps(sc))
    if fam == "jitter-big":
        r = jitter_big((sc["pipelines"], sc["delta"], sc["seed"]))
        for v in r["viol"]:
            print("PROBLEM", v[:2])
        return 1 if r["viol"] else 0
    if fam == "sample":
        r = sample_seeds(sc["start_seed"])
        for v in r["viol"]:
            print("PROBLEM", v[:2])
        return 1 if r["viol"] else 0
    return 1
