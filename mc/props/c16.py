"""C16 - priority-pool keeps batch work and latency-sensitive work on separate pools."""
from .. import simcheck


def main(tier, seed):
    rep = simcheck.sim_main("C16", tier, seed, ["F5:priority-pool,busy:priority-pool,deep:priority-pool,inject:priority-pool,ratio:priority-pool,mixed:priority-pool,scale:priority-pool"] if tier == "quick" else ["F5:priority-pool,busy:priority-pool,deep:priority-pool,inject:priority-pool,ratio:priority-pool,sibling:priority-pool,mixed:priority-pool,scale:priority-pool"])
    return rep.finish()


def replay(rec):
    return simcheck.replay(rec)
