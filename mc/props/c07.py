"""C07 - runs are reproducible and every policy is evaluated on the same workload."""
import os, sys, json, itertools, subprocess, hashlib
from concurrent.futures import ThreadPoolExecutor
from ..report import Report, Violation
from ..explorer import pmap, NPROC, chunked
from .. import boot
from ..c07_child import CONFIGS

boot.load()
from eudoxia.workload import WorkloadGenerator
from eudoxia.simulator import parse_args_with_defaults

CHILD = os.path.join(os.path.dirname(os.path.dirname(os.path.abspath(__file__))), "c07_child.py")


def child(req, hashseed="0"):
    env = dict(os.environ, PYTHONHASHSEED=str(hashseed), PYTHONDONTWRITEBYTECODE="1")
    p = subprocess.run([sys.executable, CHILD, json.dumps(req)], capture_output=True, text=True, env=env)
    for l in p.stdout.split("\n"):
        if l.startswith("C07RESULT "):
            return json.loads(l[10:])
    return dict(error=f"child failed rc={p.returncode}: {p.stderr[-400:]}")


def run_children(reqs):
    with ThreadPoolExecutor(NPROC) as ex:
        return list(ex.map(lambda r: child(r[0], r[1]), reqs))


def first_diff(a, b):
    for i, (x, y) in enumerate(zip(a, b)):
        if x != y:
            tick = sum(1 for e in a[:i] if e == ["tick"])
            return f"event #{i} (tick {tick}): {x} vs {y}"
    return f"lengths {len(a)} vs {len(b)}"


# ---------------------------------------------------------------- (b2) identifier orders, in-process
def id_orders(chunk):
    from ..families import f5
    out = []
    tps = 1
    base = None
    for order in chunk:
        sc = dict(name="ids", scheduler="priority", tps=tps, pools=1, cpus=10, ram=25, overcommit=False, multi=False, horizon=14,
                  id_order=list(order),
                  pipelines=[f5.pipeline("B", 0, "diamond", ["s1", "over"], tps, over=2.5), f5.pipeline("Q", 1, "single", ["s1"], tps)])
        tr = []
        w = f5.run(sc, tr)
        names = {}

        def cn(c):
            return names.setdefault(c, f"c{len(names) + 1}")
        canon = [[t["arrived"], t["assignments"], [(cn(c), p) for c, p in t["suspensions"]], [(cn(c), e) for c, e in (t["results"] or [])], t["ops"]] for t in tr]
        out.append((order, hashlib.sha1(json.dumps(canon).encode()).hexdigest(), len(w.mm)))
    return out


# ---------------------------------------------------------------- (c) workload depends on workload params only
def canon_workload(params, ticks=300):
    g = WorkloadGenerator(**params)
    out = []
    for t in range(ticks):
        for p in g.run_one_tick():
            ops = list(p.values.node_lookup.values())
            out.append((t, p.pipeline_id, p.priority.name, tuple((tuple(sorted(ops.index(q) for q in o.parents)),
                        tuple((s.baseline_cpu_seconds, s.storage_read_gb, s.memory_gb, s.scaling_func.__name__) for s in o.get_segments())) for o in ops)))
    return out


def workload_independence(seeds):
    viol = []
    n = 0
    sigs = {}
    for seed in seeds:
        base = parse_args_with_defaults(dict(random_seed=seed, ticks_per_second=10, waiting_seconds_mean=0.8, num_pipelines=2, num_operators=4))
        ref = canon_workload(base)
        sigs[seed] = hashlib.sha1(repr(ref).encode()).hexdigest()
        for algo in ("naive", "priority", "priority-pool", "overbook"):
            for pools, cpus, ram in ((1, 1, 0.5), (2, 64, 256), (8, 4, 16)):
                for multi in (True, False):
                    for oc in (True, False):
                        p = dict(base, scheduler_algo=algo, num_pools=pools, cpus_per_pool=cpus, ram_gb_per_pool=ram,
                                 multi_operator_containers=multi, allow_memory_overcommit=oc, duration=7, rest_poll_interval=0.3)
                        got = canon_workload(p)
                        n += 1
                        if got != ref:
                            viol.append(("workload-depends-on-non-workload-setting", f"seed {seed}: workload changes with scheduler/executor settings {algo},{pools},{cpus},{ram},{multi},{oc}: {first_diff(ref, got)}",
                                         dict(seed=seed, algo=algo, pools=pools, cpus=cpus, ram=ram, multi=multi, overcommit=oc)))
        if len(ref) < 20:
            viol.append(("too-little-entropy", f"seed {seed} produced only {len(ref)} pipelines", dict(seed=seed)))
    return dict(n=n, viol=viol, sigs=sigs)


def main(tier, seed):
    rep = Report("C07", tier, seed)
    q = tier == "quick"
    names = list(CONFIGS)
    depth = 2 if q else 3
    rep.cov["rule"] = (f"(a) every ordered history of length {depth} over 11 configurations (4 schedulers x container mode/sizing on the real generator, 400 ticks; a scripted trace in which two containers are preempted, written out and re-queued together; a scripted trace in which one pipeline is preempted, resumed and then OOM-killed while a second one is preempted later; a REST-driven run whose external policy packs operators of three pipelines into one container and reads the reported pipeline ids) run in ONE interpreter: each run's canonical event log "
                       "(arrivals, decisions, results per tick, identifiers renumbered by first appearance) and statistics must equal those of the same configuration alone in a fresh interpreter; "
                       "(b) fresh interpreters under PYTHONHASHSEED 0..3 (quick) / 0..11 and identifier generators real-uuid4 (twice), ascending, descending, scrambled; all 720 relative orders of the 6 identifiers of a diamond pipeline in-process; "
                       "(c) for a seed range and every non-workload setting (scheduler x pools x cpus x ram x mode x overcommit) the canonical generated workload over 300 ticks is identical, also when observed through run_simulator; all seed pairs differ. "
                       "states = distinct (configuration, history position) runs compared; non-trivial = runs containing failures, retries or suspensions")
    # reference: each configuration alone, fresh interpreter
    ref = {}
    res = run_children([(dict(history=[n]), 0) for n in names])
    for n, r in zip(names, res):
        if isinstance(r, dict):
            rep.harness_notes.append(f"reference child failed for {n}: {r['error']}")
            continue
        ref[n] = r[0]
        if r[0]["error"]:
            rep.add_violations([Violation("reference", "run-raised", f"{n}: {r[0]['error']}", dict(config=n), [], family="C07")])
    if len(ref) != len(names):
        print("HARNESS-ERROR: reference runs failed: " + "; ".join(rep.harness_notes))
        return 2
    # (a) histories
    hists = [list(h) for h in itertools.product(names, repeat=depth)]
    res = run_children([(dict(history=h), 0) for h in hists])
    ncmp = 0
    for h, r in zip(hists, res):
        if isinstance(r, dict):
            rep.harness_notes.append(f"child failed for history {h}: {r['error']}")
            continue
        for pos, o in enumerate(r):
            ncmp += 1
            want = ref[o["config"]]
            if o["log"] != want["log"] or o["stats"] != want["stats"] or o["error"] != want["error"]:
                what = "statistics differ" if o["log"] == want["log"] else first_diff(want["log"], o["log"])
                rep.add_violations([Violation("history", "run-depends-on-history", f"{o['config']} at position {pos} of history {h} differs from the same run in a fresh interpreter: {what}",
                                              dict(history=h, position=pos), [], family="C07h")])
            rep.add_states({(o["config"], pos, tuple(h[:pos]))})
    rep.part("histories", length=depth, histories=len(hists), runs_compared=ncmp)
    rep.cov["evaluations"] += ncmp
    rep.cov["traces_validated_against_impl"] += ncmp
    rep.cov["transitions"] += sum(len(ref[n]["log"]) for n in names) * (ncmp // len(names))
    # (b) hash seeds x identifier generators
    hs = list(range(0, 4 if q else 12))
    reqs = [(dict(history=names, ids=ids), h) for h in hs for ids in ("real", "real", "asc", "desc", "scramble")]
    res = run_children(reqs)
    nb = 0
    for (req, h), r in zip(reqs, res):
        if isinstance(r, dict):
            rep.harness_notes.append(f"child failed for hashseed {h} ids {req['ids']}: {r['error']}")
            continue
        for o in r:
            nb += 1
            want = ref[o["config"]]
            if o["log"] != want["log"] or o["stats"] != want["stats"]:
                what = "statistics differ" if o["log"] == want["log"] else first_diff(want["log"], o["log"])
                rep.add_violations([Violation("hashseed-ids", "run-depends-on-hashseed-or-identifiers", f"{o['config']} under PYTHONHASHSEED={h}, identifiers={req['ids']}: {what}",
                                              dict(hashseed=h, ids=req["ids"], config=o["config"]), [], family="C07b")])
            rep.add_states({(o["config"], "hs", h, req["ids"])})
    rep.part("hashseed-x-identifiers", hash_seeds=len(hs), identifier_generators=4, runs_compared=nb)
    rep.cov["evaluations"] += nb
    perms = list(itertools.permutations(range(6)))
    if q:
        perms = perms[:240] if False else perms
    res = pmap(id_orders, chunked(perms, NPROC * 2), chunks=1)
    digests = {}
    for lst in res:
        for order, dg, nmm in lst:
            digests.setdefault(dg, []).append(order)
    if len(digests) > 1:
        groups = sorted(digests.values(), key=len)
        rep.add_violations([Violation("id-orders", "run-depends-on-identifier-order", f"{len(digests)} different behaviours over the 720 relative orders of 6 identifiers; e.g. order {groups[0][0]} vs {groups[-1][0]}",
                                      dict(order_a=list(groups[0][0]), order_b=list(groups[-1][0])), [], family="C07i")])
    rep.part("identifier-orders", permutations=len(perms), distinct_behaviours=len(digests))
    rep.cov["evaluations"] += len(perms)
    rep.add_states({("perm", p) for p in perms})
    # (a') a long run twice in one interpreter (sizes follow the constants of the simulator / executor sources, mc/scale.py)
    from ..families import f6 as _f6
    for item in _f6.space("bulk", tier)[-1:]:
        sc_b = _f6.build(item)
        outs = []
        for _ in range(2):
            w_b, r_b, st_b, exc_b = _f6.run(sc_b)
            outs.append((None if st_b is None else json.dumps(st_b.to_dict(), sort_keys=True, default=str), repr(exc_b), len(r_b.results)))
        rep.cov["evaluations"] += 2
        if outs[0] != outs[1]:
            rep.add_violations([Violation("bulk-twice", "run-depends-on-history", f"{len(sc_b['pipelines'])} pipelines, the same run twice in one process: statistics {outs[0][0][:300]} vs {outs[1][0][:300]}",
                                          dict(name=sc_b["name"], pipelines=len(sc_b["pipelines"]), what="bulk-twice"), [], family="C07k")])
        rep.part("bulk-twice", pipelines=len(sc_b["pipelines"]))
    # (c) workload independence
    K = 32 if q else 256
    seeds = list(range(seed, seed + K))
    res = pmap(workload_independence, chunked(seeds, NPROC), chunks=1)
    sigs = {}
    for r in res:
        rep.cov["evaluations"] += r["n"]
        sigs.update(r["sigs"])
        for kind, d, sc in r["viol"]:
            rep.add_violations([Violation("workload", kind, d, sc, [], family="C07w")])
    inv = {}
    for s_, g in sigs.items():
        inv.setdefault(g, []).append(s_)
    for g, ss in inv.items():
        if len(ss) > 1:
            rep.add_violations([Violation("workload", "different-seeds-same-workload", f"seeds {ss} generate the same workload", dict(seeds=ss), [], family="C07w")])
    rep.part("workload-independence", seeds=K, settings_per_seed=4 * 3 * 2 * 2)
    # through run_simulator: the arrivals in the reference logs of all 8 configurations with equal workload parameters must agree
    groups = {}
    for n in names:
        c = CONFIGS[n]
        key = tuple(sorted((k, v) for k, v in c.items() if k in ("random_seed", "ticks_per_second", "waiting_seconds_mean", "num_pipelines", "num_operators", "query_prob", "interactive_prob", "batch_prob", "cpu_io_ratio", "duration")))
        arr = []
        tick = 0
        for e in ref[n]["log"]:
            if e == ["tick"]:
                tick += 1
            elif e[0] == "arrive":
                arr.append((tick, e[2], json.dumps(e[3])))
        groups.setdefault(key, []).append((n, arr))
    for key, lst in groups.items():
        for n, arr in lst[1:]:
            if arr != lst[0][1]:
                rep.add_violations([Violation("workload", "workload-differs-between-policies", f"{lst[0][0]} and {n} have identical workload parameters but saw different arrivals: {first_diff(lst[0][1], arr)}",
                                              dict(a=lst[0][0], b=n), [], family="C07w")])
    nontriv = {n for n in names if ref[n]["stats"] and (ref[n]["stats"]["failures"] or ref[n]["stats"]["suspensions"])}
    rep.add_nontrivial({s for s in rep._state_hashes if s[0] in nontriv})
    rep.sample(dict(history=hists[len(hists) // 3], compared_with="each configuration alone in a fresh interpreter"))
    rep.sample(dict(config="priority-multi", params=CONFIGS["priority-multi"], reference_stats=ref["priority-multi"]["stats"]))
    if rep.harness_notes:
        rep.cap("some child interpreters failed (see harness_notes)")
    return rep.finish()


def replay(rec):
    sc = rec["scenario"]
    print(json.dumps(sc))
    fam = rec.get("family")
    if fam == "C07h":
        a = child(dict(history=sc["history"]))
        o = a[sc["position"]]
        b = child(dict(history=[o["config"]]))[0]
        same = o["log"] == b["log"] and o["stats"] == b["stats"]
        print("same" if same else first_diff(b["log"], o["log"]))
        return 0 if same else 1
    if fam == "C07k":
        from ..families import f6 as _f6
        item = _f6.space("bulk", "quick")[-1]
        sc_b = _f6.build(item)
        outs = []
        for _ in range(2):
            w_b, r_b, st_b, exc_b = _f6.run(sc_b)
            outs.append(None if st_b is None else json.dumps(st_b.to_dict(), sort_keys=True, default=str))
        print("same" if outs[0] == outs[1] else f"differ: {outs[0][:300]} vs {outs[1][:300]}")
        return 0 if outs[0] == outs[1] else 1
    if fam == "C07b":
        a = child(dict(history=[sc["config"]], ids=sc["ids"]), sc["hashseed"])[0]
        b = child(dict(history=[sc["config"]]))[0]
        same = a["log"] == b["log"] and a["stats"] == b["stats"]
        print("same" if same else first_diff(b["log"], a["log"]))
        return 0 if same else 1
    if fam == "C07i":
        r = id_orders([tuple(sc["order_a"]), tuple(sc["order_b"])])
        print(r)
        return 0 if r[0][1] == r[1][1] else 1
    return 1
