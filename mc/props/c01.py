"""C01 - operators never start before their parents have completed."""
from ..report import Violation
from ..explorer import pmap, chunked, NPROC
from ..families import dagiter, f0
from .. import simcheck


def wide(m):
    """m branches r_i -> m_i -> J on the real lifecycle object; plus a chain of m operators: the dependency gate and the ready
    filter at every stage (sizes follow the constants of the lifecycle sources, mc/scale.py)"""
    from ..families.f0 import OS
    from ..refmodel import P, A, R, C, F
    from .. import boot
    boot.fresh_execution()
    from eudoxia.workload.pipeline import Pipeline, Segment
    from eudoxia.utils import Priority
    viol = []
    pl = Pipeline("wide", Priority.BATCH_PIPELINE)
    mk = lambda pars: (lambda o: (o.add_segment(Segment(baseline_cpu_seconds=1, storage_read_gb=0)), o)[1])(pl.new_operator(pars or None))
    roots = [mk([]) for _ in range(m)]
    mids = [mk([r]) for r in roots]
    join = mk(list(mids))
    st = pl.runtime_status()
    what = dict(fan_in=m, what="wide-join")

    def go(op, *targets):
        for t in targets:
            op.transition(OS[t])

    def gate(stage, expect_ok):
        if join.state().value in (P, F):
            ready = st.get_ops([OS[P], OS[F]], require_parents_complete=True)
            if (join in ready) != expect_ok:
                viol.append(("ready-filter", f"fan-in {m}, {stage}: the join is {'listed' if join in ready else 'not listed'} as ready", what))
        ok = True
        try:
            if join.state().value == P:
                go(join, A)      # handing it to a container is legal at any time; starting it is what is gated
            try:
                go(join, R)
            except Exception:
                ok = False
        except Exception:
            ok = None
        if ok is not None and ok != expect_ok:
            viol.append(("inadmissible-start-accepted" if ok else "admissible-start-refused", f"fan-in {m}, {stage}: starting the join was {'accepted' if ok else 'refused'}", what))
        return ok
    for r in roots:
        go(r, A, R, C)
    if gate("all roots completed, no middle operator started", False):
        return viol
    for x in mids[:-1]:
        go(x, A, R, C)
    if gate("all but one parent completed", False):
        return viol
    go(mids[-1], A, R, C)
    gate("all parents completed", True)
    # iteration order of the whole DAG: parents first, each node once
    order = list(pl.values)
    pos = {o: i for i, o in enumerate(order)}
    if len(order) != 2 * m + 1 or len(pos) != len(order) or any(pos[q] > pos[o] for o in order for q in o.parents):
        viol.append(("iteration-order", f"fan-in {m}: iteration is not a parents-first permutation of the {2 * m + 1} operators ({len(order)} returned)", what))
    return viol


def main(tier, seed):
    fams = ["F1", "F5:dag:naive,dag:starter,dag:overbook,dag:priority,dag:priority-pool"]
    rep = simcheck.Report("C01", tier, seed)
    rep.cov["rule"] = ("DAG: every DAG on <=5 (quick) / <=6 (thorough) operators built with the real Pipeline.new_operator: iteration is a permutation with parents first, "
                       "repeatable, interleaved iterators independent, get_ops topological, ready filter exact after every completed prefix; "
                       + simcheck.RULE["F1"] + " (incl. child-before-parent in one container, child alone, child's container listed first, on chains/diamond/join/fork); "
                       + simcheck.RULE["F5"] + " restricted to all six DAG shapes with OOM->retry and preemption->resume; " + simcheck.NONTRIVIAL)
    n = 5 if tier == "quick" else 6
    ds = f0.dags(n)
    res = pmap(dagiter.work, chunked(ds, NPROC * 4), chunks=1)
    for r in res:
        rep.cov["evaluations"] += r["n"]
        rep.cov["transitions"] += r["steps"]
        rep.add_nontrivial({("dag",) + o for o in r["orders"]})
        for kind, d, parents in r["viol"]:
            rep.add_violations([Violation("dag-iteration", kind, d, dict(parents=parents), [], family="DAG")])
    rep.add_states({("dag", str(d)) for d in ds})
    rep.part("DAG", dags=len(ds), max_nodes=n)
    rep.sample(dict(family="DAG", parents=ds[len(ds) // 2]))
    from .. import scale as _scale
    m, sinfo = _scale.size(["workload/runtime_status", "workload/pipeline", "utils/dag"], 24, 6000)
    for mm_ in sorted({3, m // 2, m}):
        for kind, d, what in wide(mm_):
            rep.add_violations([Violation("wide-join", kind, d, what, [], family="WIDE")])
        rep.cov["evaluations"] += 1
    rep.part("wide-join", fan_in=m, sizing=sinfo)
    simcheck.run_f1(rep, "C01", tier)
    simcheck.run_f5(rep, "C01", tier, ["dag:naive", "dag:starter", "dag:overbook", "dag:priority", "dag:priority-pool"], seed)
    return rep.finish()


def replay(rec):
    if rec.get("family") == "WIDE":
        v = wide(rec["scenario"]["fan_in"])
        for x in v:
            print("PROBLEM", x[:2])
        return 1 if v else 0
    if rec.get("family") == "DAG":
        probs, order = dagiter.check_dag(rec["scenario"]["parents"])
        print("parents:", rec["scenario"]["parents"], "iteration order:", order)
        for p in probs:
            print("PROBLEM", p)
        return 1 if probs else 0
    return simcheck.replay(rec)
