"""C01 - operators never start before their parents have completed."""
from ..report import Violation
from ..explorer import pmap, chunked, NPROC
from ..families import dagiter, f0
from .. import simcheck


def main(tier, seed):
    fams = ["F1", "F5:dag:naive,dag:starter,dag:overbook,dag:priority,dag:priority-pool"]
    rep = simcheck.Report("C01", tier, seed)
    rep.cov["rule"] = ("DAG: every DAG on <=5 (quick) / <=6 (thorough) operators built with the real Pipeline.new_operator: iteration is a permutation with parents first, "
                       "repeatable, interleaved iterators independent, get_ops topological, ready filter exact after every completed prefix; "
                       + simcheck.RULE["F1"] + " (incl. child-before-parent in one container, child alone, child's container listed first, on chains/diamond/join/fork); "
                       + simcheck.RULE["F5"] + " restricted to all six DAG shapes with OOM->retry and preemption->resume; " + simcheck.NONTRIVIAL)
    n = 5 if tier == "quick" else 6
    ds = f0.dags(n)
    res = pmap(dagiter.work, chunked(ds, NPROC * 4), chunks=1)
    for r in res:
        rep.cov["evaluations"] += r["n"]
        rep.cov["transitions"] += r["steps"]
        rep.add_nontrivial({("dag",) + o for o in r["orders"]})
        for kind, d, parents in r["viol"]:
            rep.add_violations([Violation("dag-iteration", kind, d, dict(parents=parents), [], family="DAG")])
    rep.add_states({("dag", str(d)) for d in ds})
    rep.part("DAG", dags=len(ds), max_nodes=n)
    rep.sample(dict(family="DAG", parents=ds[len(ds) // 2]))
    simcheck.run_f1(rep, "C01", tier)
    simcheck.run_f5(rep, "C01", tier, ["dag:naive", "dag:starter", "dag:overbook", "dag:priority", "dag:priority-pool"], seed)
    return rep.finish()


def replay(rec):
    if rec.get("family") == "DAG":
        probs, order = dagiter.check_dag(rec["scenario"]["parents"])
        print("parents:", rec["scenario"]["parents"], "iteration order:", order)
        for p in probs:
            print("PROBLEM", p)
        return 1 if probs else 0
    return simcheck.replay(rec)
