"""C13 - trace replay delivers each pipeline once, at the first tick >= its arrival."""
import io, os, sys, math, tempfile, shutil, json
from decimal import Decimal
from fractions import Fraction as Fr
from ..report import Report, Violation
from ..explorer import pmap
from ..families import tracefile as tf
from .. import boot

boot.load()
from eudoxia.workload import WorkloadGenerator
from eudoxia.simulator import parse_args_with_defaults


# ---------------------------------------------------------------- known-finding predicate
def late_by_one_on_grid_float_quotient(v):
    """delivered exactly one tick late, for an arrival that lies ON the tick grid, and the IEEE
    quotient arrival/(1.0/tps) - evaluated here, independently - lands above the exact tick."""
    d = v.scenario or {}
    try:
        text, tps, got, want = d["arrival_text"], d["tps"], d["delivered_tick"], d["exact_tick"]
    except KeyError:
        return False
    if got != want + 1:
        return False
    x = Fr(Decimal(text)) * tps
    if abs(x - want) > Fr(1, 10**9) * max(1, want):
        return False   # not (a float image of) a grid point: lateness there is a different defect
    return tf.float_quotient_above(text, tps) > want


PRED = {"late_by_one_on_grid_float_quotient": late_by_one_on_grid_float_quotient}


def judge(deliv, expected, nticks, tps, what):
    """deliv: list per tick of ids; expected: list of (id, arrival_text) in file order."""
    viol = []
    seen = {}
    for t, ids in enumerate(deliv):
        for k, i in enumerate(ids):
            if i in seen:
                viol.append(("delivered-twice", dict(pid=i, ticks=[seen[i][0], t], tps=tps, what=what), f"{i} delivered in ticks {seen[i][0]} and {t}"))
            seen[i] = (t, k)
    order = {i: n for n, (i, _) in enumerate(expected)}
    for i, text in expected:
        want = tf.exact_tick(text, tps)
        if want >= nticks:
            if i in seen:
                viol.append(("delivered-after-end", dict(pid=i, arrival_text=text, tps=tps, delivered_tick=seen[i][0], exact_tick=want, what=what), f"{i} arrives at {text}s (tick {want}) beyond the run of {nticks} ticks but was delivered in tick {seen[i][0]}"))
            continue
        if i not in seen:
            # may legitimately be missing only if it is late by one and that falls off the end
            viol.append(("late" if want == nticks - 1 else "lost", dict(pid=i, arrival_text=text, tps=tps, delivered_tick=(nticks if want == nticks - 1 else None), exact_tick=want, what=what),
                         f"{i} arriving at {text}s (tick {want}) was not delivered within {nticks} ticks"))
            continue
        got = seen[i][0]
        if got < want:
            viol.append(("early", dict(pid=i, arrival_text=text, tps=tps, delivered_tick=got, exact_tick=want, what=what), f"{i} arriving at {text}s delivered in tick {got}, before tick {want}"))
        elif got > want:
            viol.append(("late", dict(pid=i, arrival_text=text, tps=tps, delivered_tick=got, exact_tick=want, what=what), f"{i} arriving at {text}s delivered in tick {got}, first tick at or after arrival is {want}"))
    for t, ids in enumerate(deliv):
        pos = [order[i] for i in ids if i in order]
        if pos != sorted(pos):
            viol.append(("file-order", dict(tick=t, ids=ids, tps=tps, what=what), f"tick {t}: delivered {ids}, not in file order"))
        for i in ids:
            if i not in order:
                viol.append(("phantom", dict(pid=i, tps=tps, what=what), f"tick {t}: {i} is not in the trace"))
    return viol


def roundtrip(args):
    """(a) gentrace round trip: a pipeline emitted at every tick of [lo, hi) must replay in that tick."""
    tps, lo, hi = args
    script = tf.TickScript({t: [tf.tiny_pipeline(t)] for t in range(lo, hi)})
    text, nrows = tf.write_trace(script, tps, Fr(hi) / tps + Fr(1, 2 * tps))
    lines = text.strip().split("\n")[1:]
    expected = []
    for n, ln in enumerate(lines):
        f = ln.split(",")
        expected.append((f[0], f[1]))
    deliv = tf.replay_ticks(text, tps, hi + 2)
    viol = []
    if len(lines) != hi - lo:
        viol.append(("rows", dict(tps=tps), f"{len(lines)} rows written for {hi - lo} pipelines"))
    # the generator produced pipeline n in tick lo+n: compare against THAT, and check the written
    # arrival column is the tick start (within float rounding)
    emitted = {}
    for n, (pid, text_arr) in enumerate(expected):
        t = lo + n
        emitted[pid] = t
        if abs(Fr(Decimal(text_arr)) - Fr(t, tps)) > Fr(1, 10**9) * max(1, Fr(t, tps)):
            viol.append(("written-arrival", dict(pid=pid, arrival_text=text_arr, tps=tps, emitted_tick=t), f"pipeline emitted in tick {t} written with arrival {text_arr}"))
    seen = {}
    for t, ids in enumerate(deliv):
        for i in ids:
            if i in seen:
                viol.append(("delivered-twice", dict(pid=i, tps=tps), f"{i} in ticks {seen[i]} and {t}"))
            seen[i] = t
    for pid, t in emitted.items():
        got = seen.get(pid)
        text_arr = dict(expected)[pid]
        # the exact grid point the writer meant: t / tps; use its shortest decimal for the predicate when identical
        sc = dict(pid=pid, arrival_text=text_arr, tps=tps, delivered_tick=got, exact_tick=t, what="gentrace-roundtrip", emitted_tick=t)
        if got is None:
            viol.append(("lost", sc, f"pipeline emitted in tick {t} (written as {text_arr}) never replayed within {hi + 2} ticks"))
        elif got < t:
            viol.append(("early", sc, f"pipeline emitted in tick {t} replayed in tick {got}"))
        elif got > t:
            viol.append(("late", sc, f"pipeline emitted in tick {t} (written as {text_arr}s at {tps} ticks/s) replayed in tick {got}"))
    return dict(n=hi - lo, viol=viol, late=sum(1 for v in viol if v[0] == "late"), states={(tps, t) for t in range(lo, hi)})


def roundtrip_pred(v):
    """known-finding predicate for round trips: exactly one tick late and the IEEE expression
    (t*(1.0/tps))/(1.0/tps) > t, evaluated by the checker."""
    d = v.scenario or {}
    try:
        t, tps, got = d["emitted_tick"], d["tps"], d["delivered_tick"]
    except KeyError:
        return False
    if got != t + 1:
        return False
    tl = 1.0 / tps
    return (t * tl) / tl > t


PRED["roundtrip_late_by_one_float_product_above_tick"] = roundtrip_pred


def decimals(args):
    """(b) hand-written decimal arrivals: on-grid k/tps as short decimals, off-grid (k+f)/tps,
    0-3 pipelines per arrival value, gaps, arrivals beyond the end."""
    tps, lo, hi, nticks = args
    rows = []
    expected = []
    n = 0
    eps = Fr(1, 10**9)     # one nanosecond: consecutive arrivals that differ in the 10th digit, a tick boundary between them
    for k in range(lo, hi):
        close = ((Fr(0) - eps * tps, 1 if k % 6 == 1 and k > 0 else 0), (Fr(0), 1 + (k % 3)), (eps * tps, 1 if k % 6 in (1, 2) else 0))
        for f, cnt in close + ((Fr(1, 4), k % 2), (Fr(1, 2), (k + 1) % 2 if k % 5 == 0 else 0), (Fr(3, 4), 1 if k % 7 == 0 else 0)):
            if tps * eps * 4 >= 1 and f not in (Fr(0), Fr(1, 4), Fr(1, 2), Fr(3, 4)):
                continue
            if k % 4 == 3 and f == 0:
                continue   # gaps: some ticks have no on-grid arrival
            if (Fr(k) + f) < 0:
                continue
            x = (Fr(k) + f) / tps
            text = dec_text(x)
            if text is None:
                continue
            for _ in range(cnt):
                n += 1
                pid = f"q{n}"
                rows.append(tf.row_line(pid, text, "BATCH_PIPELINE", "op1", ""))
                expected.append((pid, text))
    text = tf.HEADER + "\n" + "\n".join(rows) + "\n"
    deliv = tf.replay_ticks(text, tps, nticks)
    viol = judge(deliv, expected, nticks, tps, "decimal-arrivals")
    return dict(n=len(expected), viol=viol, late=sum(1 for v in viol if v[0] == "late"), states={(tps, a) for _, a in expected})


def dec_text(x):
    """shortest exact decimal of a rational, or None if it has no finite decimal expansion"""
    d = x.denominator
    while d % 2 == 0:
        d //= 2
    while d % 5 == 0:
        d //= 5
    if d != 1:
        return None
    s = format(Decimal(x.numerator) / Decimal(x.denominator), "f")
    if "." in s:
        s = s.rstrip("0").rstrip(".")
    return s or "0"


def cli_roundtrip(seed_tps):
    """real `eudoxia gentrace` CLI -> real reader/WorkloadTrace, against a fresh generator run."""
    seed, tps, dur = seed_tps
    from eudoxia.__main__ import main as cli
    d = tempfile.mkdtemp(prefix="verif_c13_")
    viol = []
    n = 0
    try:
        params = dict(duration=dur, ticks_per_second=tps, random_seed=seed, waiting_seconds_mean=max(3.0 / tps, 0.07), num_pipelines=2, num_operators=2)
        toml = os.path.join(d, "p.toml")
        with open(toml, "w") as f:
            for k, v in params.items():
                f.write(f"{k} = {v}\n")
        out = os.path.join(d, "t.csv")
        old = sys.stdout
        sys.stdout = io.StringIO()
        try:
            cli(["gentrace", toml, out])
        finally:
            sys.stdout = old
        text = open(out).read()
        nticks = int(dur * tps)
        gen = WorkloadGenerator(**parse_args_with_defaults(params))
        direct = [len(gen.run_one_tick()) for _ in range(nticks)]
        deliv = tf.replay_ticks(text, tps, nticks + 1)
        lines = text.strip().split("\n")[1:]
        firsts = [ln.split(",") for ln in lines if ln.split(",")[1] != ""]
        k = 0
        for t, cnt in enumerate(direct):
            for j in range(cnt):
                if k >= len(firsts):
                    k += 1
                    continue   # reported below as a row-count difference
                pid, text_arr = firsts[k][0], firsts[k][1]
                k += 1
                n += 1
                got = next((tt for tt, ids in enumerate(deliv) if pid in ids), None)
                if got != t:
                    sc = dict(pid=pid, arrival_text=text_arr, tps=tps, delivered_tick=got if got is not None else (nticks + 1 if t == nticks else None), exact_tick=t, emitted_tick=t, what="gentrace-cli", seed=seed)
                    kind = "lost" if got is None else ("late" if got > t else "early")
                    viol.append((kind, sc, f"seed {seed}: generator produced {pid} in tick {t} (written {text_arr}s at {tps}/s), trace replay delivered it in tick {got}"))
        if k != len(firsts):
            viol.append(("rows", dict(seed=seed, tps=tps), f"{len(firsts)} pipelines in trace, generator produced {k}"))
    finally:
        shutil.rmtree(d, ignore_errors=True)
    return dict(n=n, viol=viol, late=sum(1 for v in viol if v[0] == "late"), states={("cli", seed, tps)})


def run_vs_trace(job):
    """(d) `run` against `gentrace` + `run -w`, both through the real CLI and the real run_simulator loop: the arrivals the
    simulator receives tick by tick (canonical pipeline contents) must be the same. Tick rates are powers of two (every
    grid point exact, so the recorded late-by-one finding cannot interfere); durations are NOT whole numbers of ticks;
    the generator is busy (an emission almost every tick), so the last tick of the run matters."""
    seed, tps, ticks = job
    from eudoxia.__main__ import main as cli
    from eudoxia.workload.workload import WorkloadTrace
    d = tempfile.mkdtemp(prefix="verif_c13d_")
    viol = []
    n = 0
    logs = {}
    o_gen, o_tr = WorkloadGenerator.run_one_tick, WorkloadTrace.run_one_tick
    cur = []

    def canon(p):
        ops = list(p.values.node_lookup.values())
        return (p.priority.name, tuple((tuple(sorted(ops.index(q) for q in o.parents)), tuple((sg.baseline_cpu_seconds, sg.storage_read_gb, sg.memory_gb) for sg in o.get_segments())) for o in ops))

    def w_gen(self):
        out = o_gen(self)
        cur.append([canon(p) for p in out])
        return out

    def w_tr(self):
        out = o_tr(self)
        cur.append([canon(p) for p in out])
        return out
    try:
        dur = ticks / tps
        params = dict(duration=dur, ticks_per_second=tps, random_seed=seed, waiting_seconds_mean=0.6 / tps, num_pipelines=1, num_operators=1,
                      scheduler_algo="naive", num_pools=1, cpus_per_pool=4, ram_gb_per_pool=64)
        toml = os.path.join(d, "p.toml")
        with open(toml, "w") as f:
            for k, v in params.items():
                f.write(f"{k} = {json.dumps(v)}\n")
        out = os.path.join(d, "t.csv")
        old = sys.stdout
        sys.stdout = io.StringIO()
        try:
            cli(["gentrace", toml, out])
            WorkloadGenerator.run_one_tick, WorkloadTrace.run_one_tick = w_gen, w_tr
            cur.clear()
            cli(["run", toml])
            logs["run"] = [list(x) for x in cur]
            cur.clear()
            cli(["run", toml, "-w", out])
            logs["trace"] = [list(x) for x in cur]
        finally:
            sys.stdout = old
            WorkloadGenerator.run_one_tick, WorkloadTrace.run_one_tick = o_gen, o_tr
        a, b = logs["run"], logs["trace"]
        n = sum(len(x) for x in a)
        sc = dict(seed=seed, tps=tps, duration=dur, what="run-vs-gentrace+run-w")
        if len(a) != len(b):
            viol.append(("run-length-differs", sc, f"duration {dur}s at {tps}/s: `run` asked its workload for {len(a)} ticks, `run -w` for {len(b)}"))
        for t in range(max(len(a), len(b))):
            xa = a[t] if t < len(a) else []
            xb = b[t] if t < len(b) else []
            if xa != xb:
                viol.append(("arrivals-differ", sc, f"duration {dur}s at {tps}/s, seed {seed}: tick {t}: `run` received {len(xa)} pipeline(s), `gentrace` + `run -w` received {len(xb)}"
                             + ("" if len(xa) != len(xb) else " with different contents")))
                break
    except SystemExit as e:
        viol.append(("cli-exit", dict(seed=seed, tps=tps, ticks=ticks), f"CLI exited with {e.code}"))
    finally:
        WorkloadGenerator.run_one_tick, WorkloadTrace.run_one_tick = o_gen, o_tr
        shutil.rmtree(d, ignore_errors=True)
    return dict(n=n, viol=viol, late=0, states={("rvt", seed, tps, ticks)})


def main(tier, seed):
    rep = Report("C13", tier, seed)
    q = tier == "quick"
    N = 2000 if q else 50000
    tpss = [1, 2, 3, 7, 10, 60, 100, 1000, 10**4, 10**5]
    rep.cov["rule"] = (f"(a) gentrace round trip: for each tick rate in {tpss} and EVERY tick t in [0,{N}] (plus windows of 2000 ticks at 10^6 and 10^7) a pipeline emitted at t is written by the real "
                       "WorkloadTraceGenerator+CSVWorkloadWriter and replayed by the real CSVWorkloadReader+WorkloadTrace: must come out in tick t; "
                       "(b) hand-written decimal arrivals on and off the grid (1/4,1/2,3/4 of a tick), 0-3 pipelines per value, gaps, arrivals beyond the end: exact tick = ceil(Decimal(text)*tps); "
                       "(c) the real `eudoxia gentrace` CLI for seeds/tick rates against a fresh generator run; (d) `eudoxia run` against `eudoxia gentrace` + `eudoxia run -w` through the real run_simulator loop for durations of k+1/4, k+1/2, k+3/4, k+15/16 ticks at power-of-two tick rates with a generator that emits almost every tick: same arrivals in every tick, same run length. states = distinct (tick rate, arrival) points; non-trivial = points that are not exactly representable in binary")
    jobs = []
    step = 2000
    for tps in tpss:
        for lo in range(0, N + 1, step):
            jobs.append((tps, lo, min(lo + step, N + 1)))
        for base in (10**6, 10**7):
            jobs.append((tps, base, base + (2000 if not q else 500)))
    res = pmap(roundtrip, jobs, chunks=1)
    djobs = []
    for tps in [1, 2, 4, 5, 8, 10, 20, 25, 50, 100, 1000, 10**4, 10**5]:
        M = 600 if q else 6000
        for lo in range(0, M, 300):
            djobs.append((tps, lo, lo + 300, M - 150))   # the last 150 ticks' arrivals lie beyond the end
    res2 = pmap(decimals, djobs, chunks=1)
    cjobs = [(s, tps, dur) for s in range(seed, seed + (3 if q else 12)) for tps, dur in ((10, 30), (100, 8), (1000, 1.5), (7, 40))]
    res3 = pmap(cli_roundtrip, cjobs, chunks=1)
    rjobs = [(s, tps, k + fr_) for s in range(seed, seed + (4 if q else 16)) for tps in (1, 2, 4, 8, 64) for k in (6, 7, 22, 23) for fr_ in (0.25, 0.5, 0.75, 0.9375)]
    res4 = pmap(run_vs_trace, rjobs, chunks=1)
    for name, rr in (("roundtrip", res), ("decimal", res2), ("gentrace-cli", res3), ("run-vs-trace", res4)):
        tot = 0
        late = 0
        for r in rr:
            tot += r["n"]
            late += r["late"]
            rep.add_states(r["states"])
            for kind, sc, detail in r["viol"]:
                rep.add_violations([Violation(name, kind, detail, sc, [], family="C13")])
        rep.cov["evaluations"] += tot
        rep.cov["transitions"] += tot
        rep.cov["traces_validated_against_impl"] += len(rr)
        rep.part(name, arrivals_checked=tot, delivered_late=late, files=len(rr))
    rep.add_nontrivial({s for s in rep._state_hashes if isinstance(s, tuple) and len(s) == 2 and isinstance(s[1], int) and ((s[1] * (1.0 / s[0])) / (1.0 / s[0]) != s[1])} |
                       {s for s in rep._state_hashes if isinstance(s, tuple) and len(s) == 2 and isinstance(s[1], str) and Fr(Decimal(s[1])) != Fr(float(s[1]))})
    rep.sample(dict(kind="roundtrip", tps=10, tick=3, written_arrival="0.30000000000000004", must_replay_in_tick=3))
    rep.sample(dict(kind="decimal", tps=100, arrival_text="0.2925", exact_tick=30))
    rep.cov["bounds"] = dict(ticks_per_rate=N, tick_rates=tpss)
    return rep.finish(PRED)


def replay(rec):
    sc = rec["scenario"]
    tps = sc["tps"]
    if sc.get("what") == "run-vs-gentrace+run-w":
        r = run_vs_trace((sc["seed"], tps, sc["duration"] * tps))
        for kind, _, detail in r["viol"]:
            print(kind, detail)
        return 1 if r["viol"] else 0
    text = tf.HEADER + "\n" + tf.row_line("p1", sc["arrival_text"], "BATCH_PIPELINE", "op1", "") + "\n"
    want = sc.get("exact_tick", tf.exact_tick(sc["arrival_text"], tps))
    deliv = tf.replay_ticks(text, tps, want + 4)
    got = next((t for t, ids in enumerate(deliv) if ids), None)
    print(f"arrival {sc['arrival_text']}s at {tps} ticks/s: first tick at or after arrival = {want}; WorkloadTrace delivered in tick {got}")
    return 0 if got == want else 1
