"""C11 - pool-level OOM kills take highest scorers first and stop once usage fits."""
from .. import simcheck


def main(tier, seed):
    rep = simcheck.sim_main("C11", tier, seed, ["F3", "F1"])
    return rep.finish()


def replay(rec):
    return simcheck.replay(rec)
