"""C09 - every accepted assignment becomes exactly one container with exactly one outcome."""
from ..report import Report
from .. import simcheck


def main(tier, seed):
    rep = Report("C09", tier, seed)
    rep.cov["rule"] = simcheck.RULE_F1
    simcheck.run_f1(rep, "C09", tier)
    return rep.finish()


def replay(rec):
    return simcheck.replay_f1(rec)
