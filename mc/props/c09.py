"""C09 - every accepted assignment becomes exactly one container with exactly one outcome."""
from .. import simcheck


def main(tier, seed):
    rep = simcheck.sim_main("C09", tier, seed, ["F1", "F2", "F3"])
    return rep.finish()


def replay(rec):
    return simcheck.replay(rec)
