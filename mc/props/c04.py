"""C04 - memory limits hold after every tick and reported usage is the real usage."""
from .. import simcheck


def main(tier, seed):
    rep = simcheck.sim_main("C04", tier, seed, ["F3", "F2", "F1"])
    return rep.finish()


def replay(rec):
    return simcheck.replay(rec)
