"""C04 - memory limits hold after every tick and reported usage is the real usage."""
from ..report import Report
from .. import simcheck


def main(tier, seed):
    rep = Report("C04", tier, seed)
    rep.cov["rule"] = simcheck.RULE_F1
    simcheck.run_f1(rep, "C04", tier)
    return rep.finish()


def replay(rec):
    return simcheck.replay_f1(rec)
