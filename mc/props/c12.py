"""C12 - priority: strict priority order, work conservation, query-only preemption."""
from .. import simcheck


def main(tier, seed):
    rep = simcheck.sim_main("C12", tier, seed, ["F5:priority,priority-pool@1,deep:priority,preempt:priority,sibling:priority,twice:priority,retrypreempt:priority,capwait:priority-pool,scale:priority"] if tier == "quick" else ["F5:priority,priority-pool,deep:priority,busy:priority,preempt:priority,sibling:priority,sibling:priority-pool,ratio:priority,twice:priority,retrypreempt:priority,capwait:priority-pool,scale:priority,scale:priority-pool"])
    return rep.finish()


def replay(rec):
    return simcheck.replay(rec)
