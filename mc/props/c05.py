"""C05 - container execution follows the documented time and memory model."""
import json
from ..report import Report, Violation
from ..explorer import pmap, chunked, NPROC
from ..families import fc
from .. import simcheck


def work(chunk):
    out = dict(n=0, ticks=0, viol=[], outcomes=set(), skipped=0, multi_cand=0, states=set())
    for c in chunk:
        probs, info = fc.run_case(c)
        out["n"] += 1
        if info.get("skipped"):
            out["skipped"] += 1
            continue
        out["ticks"] += info.get("ticks", 0)
        if info.get("cands", 1) > 1:
            out["multi_cand"] += 1
        oc = info.get("outcome")
        shape = (len(c["ops"]), tuple(len(o) for o in c["ops"]), c["tps"], c["cpus"], str(oc))
        out["outcomes"].add(shape)
        out["states"].add(hash((json.dumps(c["ops"]), c["cpus"], c["ram"], c["tps"], str(oc))))
        for kind, detail, site in probs:
            out["viol"].append((kind, detail, site, c))
    return out


def main(tier, seed):
    rep = Report("C05", tier, seed)
    rep.cov["rule"] = ("F-C: every operator list of the segment alphabet (read/cpu durations 0, <1, 1, 2.5 ticks; 7 scaling laws; memory unset/0/small/over) "
                       "x cpus x ram (below, just below, at, above the peak) x tick rates 1..100000, each run in a real pool to its result and matched "
                       "tick by tick against the documented timeline model (exact rationals, float-boundary alternatives explicit); "
                       "states = distinct (case, outcome); non-trivial = distinct (list shape, tick rate, cpus, outcome incl. tick of result)")
    cs = fc.cases(tier, seed)
    res = pmap(work, chunked(cs, NPROC * 8), chunks=1)
    for r in res:
        rep.cov["evaluations"] += r["n"]
        rep.cov["traces_validated_against_impl"] += r["n"] - r["skipped"]
        rep.cov["transitions"] += r["ticks"]
        rep.add_states(r["states"])
        rep.add_nontrivial(r["outcomes"])
        for kind, detail, site, c in r["viol"]:
            rep.add_violations([Violation("timeline", kind, detail, c, [], site=site, family="FC")])
    rep.part("F-C", cases=len(cs), skipped_too_ambiguous=sum(r["skipped"] for r in res),
             cases_with_float_boundary_alternatives=sum(r["multi_cand"] for r in res))
    # the same model with NEIGHBOURS in the pool (a container's timeline and its OOM tick must not depend on what the
    # others do in that tick: one finishing, one created, one killed): the memory-mix family in lock-step with the model
    rep.cov["rule"] += "; " + simcheck.RULE["F3"]
    simcheck.run_f3(rep, "C05", tier)
    rep.cov["bounds"] = dict(operators="1..3", segments="1..2", tick_rates=[1, 2, 3, 10, 1000, 100000])
    rep.sample(cs[len(cs) // 3])
    rep.sample(cs[-1])
    return rep.finish()


def replay(rec):
    if rec.get("family") != "FC":
        return simcheck.replay(rec)
    probs, info = fc.run_case(rec["scenario"])
    print("case:", json.dumps(rec["scenario"]))
    print("info:", info)
    for p in probs:
        print("PROBLEM", p)
    return 1 if probs else 0
