"""C17 - naive scheduler: whole-pool FIFO without retries or preemption."""
from .. import simcheck


def main(tier, seed):
    rep = simcheck.sim_main("C17", tier, seed, ["F5:naive,branch:naive,scale:naive"])
    return rep.finish()


def replay(rec):
    return simcheck.replay(rec)
