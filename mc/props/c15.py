"""C15 - the workload generator emits well-formed pipelines that follow its parameters."""
import json, math, statistics
from ..report import Report, Violation
from ..explorer import pmap, Chooser, explore_subtree, chunked, NPROC
from .. import boot

boot.load()
from eudoxia.workload import WorkloadGenerator
from eudoxia.workload.pipeline import Segment
from eudoxia.simulator import parse_args_with_defaults, get_param_defaults
from eudoxia.utils import Priority

ZS = [0.2, -3, -1.2, -0.7, -0.2, 0.7, 1.2, 3, -5, 5]      # index 0 = default answer; +-5 sigma: draws that come out negative
# documented prototypes (cpu seconds, scaling law, read GB), from the most I/O-heavy to the most CPU-heavy
PROTOS = [(1, "const", 55), (2, "sqrt", 55), (5, "linear3", 45), (15, "linear3", 37.5), (20, "linear7", 30), (40, "linear7", 20), (80, "squared", 10)]
QUERY_PROTO = (15, "linear3", 35)


def seg_key(s):
    law = next((n for n, f in Segment.SCALING_FUNCS.items() if f == s.scaling_func), None)
    return (s.baseline_cpu_seconds, law, s.storage_read_gb)


class _Fallback:
    """draw kinds the stand-in does not enumerate are answered by a real, seeded numpy generator and counted:
    that is reduced coverage, never a harness failure and never by itself a violation"""
    unknown_calls = 0

    def __getattr__(self, name):
        if name.startswith("__"):
            raise AttributeError(name)
        import numpy as _np
        real = self.__dict__.setdefault("_real", _np.random.default_rng(12345))
        attr = getattr(real, name)
        if callable(attr):
            def call(*a, **k):
                _Fallback.unknown_calls += 1
                self.__dict__["foreign"] = self.__dict__.get("foreign", 0) + 1
                return attr(*a, **k)
            return call
        return attr


class EnumRng(_Fallback):
    def __init__(self, ch, log, zs=ZS):
        self.ch = ch
        self.log = log
        self.zs = zs

    def choice(self, a, size=None, replace=True, p=None, **kw):
        a = list(a)
        idx = [i for i in range(len(a)) if p is None or p[i] > 0]
        if size is not None:
            # a block draw: one choice point decides the class the whole block is filled with
            k = self.ch.choose(len(idx), "choice-block")
            self.log.append(("choice", list(a), None if p is None else [float(x) for x in p], a[idx[k]]))
            import numpy as _np
            return _np.array([a[idx[k]]] * int(_np.prod(size)))
        k = self.ch.choose(len(idx), "choice")
        self.log.append(("choice", list(a), None if p is None else [float(x) for x in p], a[idx[k]]))
        return a[idx[k]]

    def normal(self, loc=0.0, scale=1.0, size=None):
        k = self.ch.choose(len(self.zs), "normal")
        v = loc + scale * self.zs[k]
        self.log.append(("normal", loc, scale, v))
        return v

    # other ways of drawing a class or a number: every answer of a small integer range, a grid of the unit interval
    def integers(self, low, high=None, size=None, dtype=None, endpoint=False, **kw):
        if high is None:
            low, high = 0, low
        n = int(high) - int(low) + (1 if endpoint else 0)
        if size is not None or n <= 0 or n > 512:
            return _Fallback.__getattr__(self, "integers")(low, high, size=size, endpoint=endpoint)
        # every value of a small range; of a larger one both ends (4 values each) and a stride through the middle
        vals = list(range(n)) if n <= 16 else sorted(set(range(4)) | set(range(n - 4, n)) | set(range(0, n, max(1, n // 12))))
        k = self.ch.choose(len(vals), "integers")
        self.log.append(("integers", int(low), int(high), int(low) + vals[k]))
        return int(low) + vals[k]

    UNIT = [0.5] + [i / 16 for i in range(16) if i != 8] + [0.995, 0.9999, 1 - 2.0 ** -40]

    def random(self, size=None, **kw):
        if size is not None:
            return _Fallback.__getattr__(self, "random")(size, **kw)
        k = self.ch.choose(len(self.UNIT), "random")
        self.log.append(("random", self.UNIT[k]))
        return self.UNIT[k]

    def uniform(self, low=0.0, high=1.0, size=None):
        if size is not None:
            return _Fallback.__getattr__(self, "uniform")(low, high, size)
        return low + (high - low) * self.random()


def params(**kw):
    p = parse_args_with_defaults(dict(kw))
    return p


def check_pipeline(p, cfg, seen_ids, probs, what):
    ops = list(p.values.node_lookup.values())
    if p.pipeline_id in seen_ids:
        probs.append(("duplicate-id", f"{p.pipeline_id} delivered twice", what))
    seen_ids.add(p.pipeline_id)
    if len(ops) < 1:
        probs.append(("no-operator", f"{p.pipeline_id}", what))
        return
    if p.priority == Priority.QUERY and len(ops) != 1:
        probs.append(("query-not-single", f"{p.pipeline_id} has {len(ops)} operators", what))
    for i, op in enumerate(ops):
        want_par = [ops[i - 1]] if i else []
        if list(op.parents) != want_par:
            probs.append(("not-a-chain", f"{p.pipeline_id} operator {i} has parents {[ops.index(q) for q in op.parents]}", what))
        segs = op.get_segments()
        if len(segs) != 1:
            probs.append(("segment-count", f"{p.pipeline_id} operator {i} has {len(segs)} segments", what))
            continue
        k = seg_key(segs[0])
        if segs[0].memory_gb is not None:
            probs.append(("prototype", f"{p.pipeline_id} operator {i}: fixed memory {segs[0].memory_gb}", what))
        if p.priority == Priority.QUERY:
            if k != QUERY_PROTO and k not in PROTOS:
                probs.append(("prototype", f"{p.pipeline_id} query segment {k} is not a documented prototype", what))
        else:
            if k not in PROTOS:
                probs.append(("prototype", f"{p.pipeline_id} operator {i} segment {k} is not a documented prototype", what))
            if i == 0 and k != PROTOS[0]:
                probs.append(("first-operator-not-io-heavy", f"{p.pipeline_id}: first operator has {k}", what))


def structure_case(cfg):
    """all answer sequences with <= bound non-default answers over nevents arrival events"""
    bound, nevents = cfg["bound"], cfg["events"]
    pr = params(num_pipelines=cfg["npipe"], num_operators=cfg["nops"], waiting_seconds_mean=cfg["wait_ticks"] / cfg["tps"],
                ticks_per_second=cfg["tps"], cpu_io_ratio=cfg["ratio"], interactive_prob=cfg["probs"][0], query_prob=cfg["probs"][1], batch_prob=cfg["probs"][2])
    viol = []
    execs = 0
    draws = 0
    outs = set()

    def run(ch):
        log = []
        g = WorkloadGenerator(**pr)
        g.rng = EnumRng(ch, log)
        events = []
        t = 0
        horizon = 4 * (nevents + 1) * (max(1, int(cfg["wait_ticks"])) + 2) * 2
        try:
            while len(events) < nevents and t < horizon:
                got = g.run_one_tick()
                if got:
                    events.append((t, got))
                t += 1
        except Exception as e:
            return ("raised", f"{type(e).__name__}: {e}"), log
        return events, log

    def on_exec(ch, res):
        nonlocal execs, draws
        events, log = res
        execs += 1
        draws += len(log)
        what = dict(cfg=cfg, choices=list(ch.choices))
        if isinstance(events, tuple) and events and events[0] == "raised":
            viol.append(("generator-raised", events[1], what))
            return
        if len(events) < nevents:
            viol.append(("too-few-events", f"{len(events)} arrival events", what))
        seen = set()
        for t, pls in events:
            if len(pls) != cfg["npipe"]:
                viol.append(("batch-size", f"tick {t}: {len(pls)} pipelines, num_pipelines={cfg['npipe']}", what))
            for p in pls:
                check_pipeline(p, cfg, seen, viol, what)
                if cfg["probs"][{"INTERACTIVE": 0, "QUERY": 1, "BATCH_PIPELINE": 2}[p.priority.name]] == 0:
                    viol.append(("zero-probability-class", f"{p.pipeline_id} is {p.priority.name} although its probability is 0", what))
        for (t0, _), (t1, _) in zip(events, events[1:]):
            if t1 - t0 < 1:
                viol.append(("events-less-than-a-tick-apart", f"ticks {t0},{t1}", what))
        if events and events[0][0] != 0:
            pass
        # argument binding of every draw
        for ent in log:
            if ent[0] == "choice":
                _, a, p, _ = ent
                m = {Priority(v).name: q for v, q in zip(a, p)} if p else {}
                tot = sum(cfg["probs"])
                want = {"INTERACTIVE": cfg["probs"][0] / tot, "QUERY": cfg["probs"][1] / tot, "BATCH_PIPELINE": cfg["probs"][2] / tot}
                if set(m) != set(want) or any(abs(m[k] - want[k]) > 1e-9 for k in want):
                    viol.append(("probability-binding", f"choice offered {m}, configured {want}", what))
        outs.add(json.dumps([[t, [(p.priority.name, [seg_key(o.get_segments()[0]) for o in p.values.node_lookup.values()]) for p in pls]] for t, pls in events]))

    explore_subtree(run, [], bound, on_exec)
    return dict(n=execs, draws=draws, viol=viol, outs=len(outs), states={(json.dumps(cfg), o) for o in outs})


def quantiles(n=256):
    nd = statistics.NormalDist()
    return [nd.inv_cdf((k + 0.5) / n) for k in range(n)]


class OneDrawRng(_Fallback):
    """every draw answers its default except draw number `target` of kind 'normal' with the given
    (loc, scale) signature, which answers the given z"""

    def __init__(self, match, z, pick_class=None):
        self.match = match
        self.z = z
        self.n = 0
        self.pick_class = pick_class
        self.hit = 0

    def choice(self, a, size=None, replace=True, p=None, **kw):
        a = list(a)
        if self.pick_class is not None and self.pick_class in a:
            v = self.pick_class
        else:
            v = a[max(range(len(a)), key=lambda i: p[i] if p is not None else 0)]
        if size is not None:
            import numpy as _np
            return _np.array([v] * int(_np.prod(size)))
        return v

    def normal(self, loc=0.0, scale=1.0, size=None):
        if self.match(loc, scale, self.n):
            self.n += 1
            self.hit += 1
            return loc + scale * self.z
        self.n += 1
        return loc + scale * 0.2


def expectations(cfg):
    """exact discretised expectations, one draw at a time over 256 equiprobable quantiles"""
    viol = []
    qs = quantiles()
    nops, tps = cfg["nops"], cfg["tps"]
    n = 0
    # (1) operator count
    counts = []
    for z in qs:
        pr = params(num_pipelines=1, num_operators=nops, ticks_per_second=tps, interactive_prob=0, query_prob=0, batch_prob=1)
        g = WorkloadGenerator(**pr)
        g.rng = OneDrawRng(lambda loc, scale, k: abs(loc - nops) < 1e-12 and scale > 0, z)
        pl = g.generate_pipelines()[0]
        n += 1
        if g.rng.hit != 1 or g.rng.__dict__.get("foreign"):
            continue    # the operator count is not drawn as one normal(num_operators, .) sample: not enumerable this way
        counts.append(len(pl.values.node_lookup))
    if len(counts) < len(qs):
        return dict(n=n, viol=[], states={(json.dumps(cfg), "expect-skipped")}, skipped="operator-count draw not recognised")
    mean = sum(counts) / len(counts)
    if abs(mean - nops) > max(0.75, nops / 10):   # truncation towards zero costs about half an operator
        viol.append(("operator-count-mean", f"E[operators]={mean:.3f} for num_operators={nops}", dict(cfg=cfg)))
    if min(counts) < 1:
        viol.append(("operator-count-min", f"min {min(counts)}", dict(cfg=cfg)))
    if nops >= 4 and len(set(counts)) < 2:
        viol.append(("operator-count-constant", f"operator count does not vary with the draw: always {counts[0]}", dict(cfg=cfg)))
    # (2) gap
    def normal_draws(wait_ticks):
        """(loc, scale) of every normal draw over the first ticks, all answers default"""
        pr = params(num_pipelines=1, num_operators=1, ticks_per_second=tps, waiting_seconds_mean=wait_ticks / tps, interactive_prob=0, query_prob=1, batch_prob=0)
        g = WorkloadGenerator(**pr)
        seen = []
        g.rng = OneDrawRng(lambda loc, scale, k: seen.append((float(loc), float(scale))) and False, 0.0)
        for _ in range(3):
            g.run_one_tick()
        return seen
    from .. import scale as _scale
    big_wait, _sinfo = _scale.size(["workload/workload", "workload/__init__"], 3000, 9_000_000)
    for wait_ticks in list(cfg["waits"]) + ([big_wait] if cfg["nops"] == 5 else []):
        gaps = []
        zs_here = qs if wait_ticks <= 5000 else [-1.0, 0.0, 1.0]      # (very long waits: three answers, millions of ticks each)
        # the gap draw is identified by what it REACTS to, not by what it is expected to look like: the normal draw
        # whose centre moves when waiting_seconds_mean moves (everything else equal)
        da, db = normal_draws(wait_ticks), normal_draws(3 * wait_ticks + 7)
        moving = [i for i, (x, y) in enumerate(zip(da, db)) if x != y]
        if len(da) != len(db) or len(moving) != 1:
            gapidx, wmean = None, None
        else:
            gapidx = moving[0]
            wmean = da[gapidx][0]
            if abs(wmean - wait_ticks) > 1 + 0.01 * wait_ticks:    # (one tick of float truncation and 1% are not "a different average")
                viol.append(("gap-draw-centre", f"waiting_seconds_mean={wait_ticks / tps}s at {tps} ticks/s is {wait_ticks} ticks, but the gap is drawn around {wmean}", dict(cfg=cfg, wait=wait_ticks)))
        for z in zs_here:
            if gapidx is None:
                gaps = None
                break
            pr = params(num_pipelines=1, num_operators=1, ticks_per_second=tps, waiting_seconds_mean=wait_ticks / tps, interactive_prob=0, query_prob=1, batch_prob=0)
            g = WorkloadGenerator(**pr)
            g.rng = OneDrawRng(lambda loc, scale, k, gi=gapidx: k == gi, z)
            t, ev = 0, []
            while len(ev) < 2 and t < 10 * wait_ticks + 10:
                if g.run_one_tick():
                    ev.append(t)
                t += 1
            n += 1
            if g.rng.hit < 1 or g.rng.__dict__.get("foreign"):
                gaps = None
                break
            if len(ev) < 2:
                viol.append(("gap-missing", f"no second event within {t} ticks", dict(cfg=cfg, wait=wait_ticks)))
                continue
            gaps.append(ev[1] - ev[0])
            drawn = da[gapidx][0] + da[gapidx][1] * z
            if abs((ev[1] - ev[0]) - max(1.0, drawn)) > 1.5 + 1e-9 * abs(drawn):
                viol.append(("gap-not-as-drawn", f"a gap of {drawn:.1f} ticks was drawn (mean {wait_ticks} ticks at {tps}/s), the next event came after {ev[1] - ev[0]} ticks", dict(cfg=cfg, wait=wait_ticks)))
                break
        if gaps:
            m = sum(gaps) / len(gaps)
            if min(gaps) < 1:
                viol.append(("gap-below-one-tick", f"{min(gaps)}", dict(cfg=cfg, wait=wait_ticks)))
            if wait_ticks >= 100 and abs(m - wait_ticks) > 0.05 * wait_ticks:
                viol.append(("gap-mean", f"E[gap]={m:.2f} ticks for a mean of {wait_ticks} ticks", dict(cfg=cfg, wait=wait_ticks)))
    # (3) prototype mix of later operators vs cpu_io_ratio
    dists = {}
    for ratio in cfg["ratios"]:
        ranks = []
        for z in qs:
            pr = params(num_pipelines=1, num_operators=3, ticks_per_second=tps, cpu_io_ratio=ratio, interactive_prob=0, query_prob=0, batch_prob=1)
            g = WorkloadGenerator(**pr)
            # draw 0 = operator count (default -> 3 operators); draws 1.. = segments of later operators
            state = {"seen": 0}

            def seg_draw(loc, scale, k, ratio=ratio, state=state):
                # the first normal draw that is not the operator-count draw (num_operators=3, scale 0.75): the second
                # operator's prototype - whatever centre the implementation gives it (that is what is being tested)
                if abs(loc - 3) < 1e-12 and abs(scale - 0.75) < 1e-12:
                    return False
                state["seen"] += 1
                return state["seen"] == 1
            g.rng = OneDrawRng(seg_draw, z)
            pl = g.generate_pipelines()[0]
            ops = list(pl.values.node_lookup.values())
            n += 1
            if len(ops) < 2 or g.rng.hit != 1 or g.rng.__dict__.get("foreign"):
                continue
            k = seg_key(ops[1].get_segments()[0])
            ranks.append(PROTOS.index(k) if k in PROTOS else -1)
            hit = g.rng.hit
        dists[ratio] = ranks
        if len(ranks) and len(set(ranks)) < 2:
            viol.append(("prototype-mix-constant", f"ratio {ratio}: the second operator is always prototype #{ranks[0]} whatever the draw", dict(cfg=cfg, ratio=ratio)))
    rs = sorted(dists)
    cdf = lambda ranks, r: sum(1 for x in ranks if x <= r) / max(1, len(ranks))
    for a, b in zip(rs, rs[1:]):
        lo, hi = dists[a], dists[b]
        if not lo or not hi:
            continue
        if any(cdf(hi, r) > cdf(lo, r) + 1e-12 for r in range(7)):
            viol.append(("ratio-not-monotone", f"cpu_io_ratio {b} does not dominate {a}: rank cdfs {[round(cdf(lo, r), 3) for r in range(7)]} vs {[round(cdf(hi, r), 3) for r in range(7)]}", dict(cfg=cfg)))
    if rs and dists[rs[0]] and dists[rs[-1]]:
        if sum(dists[rs[-1]]) <= sum(dists[rs[0]]):
            viol.append(("ratio-has-no-effect", f"mean prototype rank at ratio {rs[0]} = {sum(dists[rs[0]]) / len(dists[rs[0]]):.3f}, at {rs[-1]} = {sum(dists[rs[-1]]) / len(dists[rs[-1]]):.3f}", dict(cfg=cfg)))
    return dict(n=n, viol=viol, states={(json.dumps(cfg), "expect")})


def seeds_case(args):
    lo, hi = args
    viol = []
    n = 0
    sig = set()
    for seed in range(lo, hi):
        for cfgk, kw in enumerate((dict(), dict(num_pipelines=1, num_operators=1, waiting_seconds_mean=0.004, ticks_per_second=100),
                                   dict(query_prob=0.0, interactive_prob=0.5, batch_prob=0.5, num_operators=8, waiting_seconds_mean=0.5, ticks_per_second=10),
                                   dict(query_prob=1.0, interactive_prob=0.0, batch_prob=0.0, waiting_seconds_mean=0.3, ticks_per_second=10),
                                   # long runs with batch sizes that divide no power of two: an arrival event in every tick
                                   dict(num_pipelines=3, num_operators=1, waiting_seconds_mean=0.004, ticks_per_second=100, _ticks=400),
                                   dict(num_pipelines=7, num_operators=1, waiting_seconds_mean=0.004, ticks_per_second=100, _ticks=200))):
            nticks = kw.pop("_ticks", 300) if "_ticks" in kw else 300
            if nticks != 300 and seed % 8:
                continue
            pr = params(random_seed=seed, **kw)
            g = WorkloadGenerator(**pr)
            seen = set()
            last = None
            what = dict(seed=seed, params=kw)
            for t in range(nticks):
                pls = g.run_one_tick()
                if not pls:
                    continue
                n += 1
                if len(pls) != pr["num_pipelines"]:
                    viol.append(("batch-size", f"seed {seed} tick {t}: {len(pls)}", what))
                for p in pls:
                    check_pipeline(p, None, seen, viol, what)
                    if pr[{"INTERACTIVE": "interactive_prob", "QUERY": "query_prob", "BATCH_PIPELINE": "batch_prob"}[p.priority.name]] == 0:
                        viol.append(("zero-probability-class", f"{p.priority.name}", what))
                if last is not None and t - last < 1:
                    viol.append(("events-less-than-a-tick-apart", f"{last},{t}", what))
                last = t
            sig.add((cfgk, len(seen)))
    return dict(n=n, viol=viol, states={("seed", s) for s in range(lo, hi)}, sig=sig)


def main(tier, seed):
    rep = Report("C15", tier, seed)
    q = tier == "quick"
    bound = 2 if q else 3
    rep.cov["rule"] = (f"(i) WorkloadGenerator.rng replaced by an enumerating environment (choice: every class with p>0; normal: loc+scale*z, z in {ZS}, index 0 default): ALL answer sequences with <={bound} non-default answers over 3 arrival events "
                       "for num_pipelines 1,2,3 x num_operators 1,2,5 x waiting mean 0.4/3/50 ticks x probability triples with zeros; structural well-formedness + argument binding of every draw; "
                       "(ii) binding for all 66 probability triples in tenths plus 9 triples with a zero and members that are not whole percents (a generator that draws a class through an integer or a unit-interval sample is enumerated over every integer / a 19-point grid); (iii) exact discretised expectations over 256 equiprobable normal quantiles, one draw at a time (operator count, gap, prototype rank vs cpu_io_ratio 0..1); "
                       "(iv) the real numpy generator for a seed range. states = distinct generated event sequences; non-trivial = sequences containing a non-default answer")
    cfgs = []
    for npipe in (1, 2, 3):
        for nops in (1, 2, 5):
            for wt in (0.4, 3, 50):
                for probs in ((0.3, 0.1, 0.6), (0.0, 0.5, 0.5), (0.0, 0.0, 1.0), (1.0, 0.0, 0.0)):
                    if q and (npipe, nops) not in ((1, 5), (2, 2), (3, 1), (1, 1)) and probs != (0.3, 0.1, 0.6):
                        continue
                    b = bound if npipe * nops <= 5 else min(bound, 2)
                    cfgs.append(dict(npipe=npipe, nops=nops, wait_ticks=wt, tps=10, ratio=0.5, probs=probs, bound=b, events=3 if npipe * nops <= 5 else 2))
    res = pmap(structure_case, cfgs, chunks=1)
    for r in res:
        rep.cov["evaluations"] += r["n"]
        rep.cov["traces_validated_against_impl"] += r["n"]
        rep.cov["transitions"] += r["draws"]
        rep.add_states(r["states"])
        for kind, d, what in r["viol"]:
            rep.add_violations([Violation("structure", kind, d, what, what.get("choices", []), family="C15s")])
    rep.part("structure", configurations=len(cfgs), executions=sum(r["n"] for r in res), draws_answered=sum(r["draws"] for r in res), distinct_outputs=sum(r["outs"] for r in res))
    # (ii) all 66 triples, binding only (1 event, bound 1)
    from ..families.f6 import triples
    # ... plus triples with a zero whose other members are not whole percents (0.29 * 100 = 28.999999999999996 in floats)
    odd = [(0.29, 0.71, 0.0), (0.57, 0.43, 0.0), (0.335, 0.665, 0.0), (0.0, 0.29, 0.71), (0.29, 0.0, 0.71), (0.145, 0.0, 0.855), (0.0, 0.57, 0.43), (1 / 3, 2 / 3, 0.0), (0.0, 1 / 3, 2 / 3)]
    tcfgs = [dict(npipe=2, nops=1, wait_ticks=3, tps=10, ratio=0.5, probs=t, bound=1, events=1) for t in list(triples()) + odd]
    res2 = pmap(structure_case, tcfgs, chunks=4)
    for r in res2:
        rep.cov["evaluations"] += r["n"]
        rep.cov["transitions"] += r["draws"]
        rep.add_states(r["states"])
        for kind, d, what in r["viol"]:
            rep.add_violations([Violation("binding", kind, d, what, what.get("choices", []), family="C15s")])
    rep.part("binding", triples=len(tcfgs))
    # (iii) expectations
    ecfgs = [dict(nops=n, tps=tps, waits=[100, 400, 5000, 25, 17, 125, 1750] if n == 5 else [100, 25], ratios=[0, 0.1, 0.2, 0.3, 0.4, 0.5, 0.6, 0.7, 0.8, 0.9, 1.0] if n == 5 else [0, 0.5, 1.0])
             for n in (1, 2, 5, 8, 20) for tps in ((10,) if q else (1, 10, 1000))]
    res3 = pmap(expectations, ecfgs, chunks=1)
    for r in res3:
        rep.cov["evaluations"] += r["n"]
        rep.cov["transitions"] += r["n"]
        rep.add_states(r["states"])
        for kind, d, what in r["viol"]:
            rep.add_violations([Violation("expectations", kind, d, what, [], family="C15e")])
    rep.part("expectations", configurations=len(ecfgs), quantiles=256, configurations_skipped_draw_not_recognised=sum(1 for r in res3 if r.get("skipped")))
    if any(r.get("skipped") for r in res3):
        rep.harness_notes.append("some expectation configurations could not be enumerated: the generator does not draw the operator count as one normal(num_operators, .) sample (reduced coverage, not a violation)")
    # (iv) real generator
    K = 64 if q else 2000
    res4 = pmap(seeds_case, [(seed + lo, seed + min(lo + 16, K)) for lo in range(0, K, 16)], chunks=1)
    for r in res4:
        rep.cov["evaluations"] += r["n"]
        rep.add_states(r["states"])
        for kind, d, what in r["viol"]:
            rep.add_violations([Violation("seeds", kind, d, what, [], family="C15r")])
    rep.part("seeds", seeds=K, arrival_events=sum(r["n"] for r in res4))
    rep.add_nontrivial({s for s in rep._state_hashes if len(s) == 2 and isinstance(s[1], str) and s[1] != "expect"})
    rep.sample(dict(part="structure", cfg=cfgs[0], answers="choice index / z index per draw, e.g. [0, 2, 0, 5]"))
    rep.cov["bounds"] = dict(deviations=bound, arrival_events=3, z_grid=ZS)
    rep.assumptions.append("numpy's Generator.normal/choice follow their arguments (the enumerating environment replaces them)")
    return rep.finish()


def replay(rec):
    sc = rec["scenario"]
    print(json.dumps(sc, default=str))
    if rec.get("family") == "C15s":
        cfg = dict(sc["cfg"])
        r = structure_case(cfg)
    elif rec.get("family") == "C15e":
        r = expectations(sc["cfg"])
    else:
        r = seeds_case((sc["seed"], sc["seed"] + 1))
    hit = [v for v in r["viol"] if v[0] == rec["kind"]]
    for v in hit[:5]:
        print("PROBLEM", v[0], v[1])
    return 1 if hit else 0
