"""C08 - valid configurations run to the end; shipped schedulers decide admissibly."""
from .. import simcheck

ALGOS = ["naive", "starter", "overbook", "priority", "priority-pool"]


def priority_pool_single_operator_mode(v):
    """known finding: priority-pool packs a whole pipeline into one assignment although
    multi_operator_containers is false; the executor's operator-count assertion fires."""
    sc = v.scenario or {}
    return sc.get("scheduler") == "priority-pool" and sc.get("multi") is False


PRED = {"priority_pool_single_operator_mode": priority_pool_single_operator_mode}


def main(tier, seed):
    rep = simcheck.Report("C08", tier, seed)
    rep.cov["rule"] = ("F6:gen: the real run_simulator with the real generator over a configuration grid (all 66 probability triples on the 0.1 grid; pools 1-3 x cpus 1,2,4,64 x ram 0.5,1,8,256 x both container modes; "
                       "durations 0.4 tick..60 s x tick rates 1..100000) for naive, priority, priority-pool, overbook(+overcommit) and the starter written by `eudoxia init -s`; "
                       + simcheck.RULE["F5"] + " on corner workloads (zero-tick operators, growing memory, never-fitting operators; 1 CPU, sub-GB RAM); any exception or inadmissible decision is a violation; "
                       + simcheck.NONTRIVIAL)
    simcheck.run_f6(rep, "C08", tier, kinds=("gen", "dags", "susp"))
    simcheck.run_f5(rep, "C08", tier, ["corner:" + a for a in ALGOS], seed)
    simcheck.run_f5(rep, "C08", tier, ["dag:" + a for a in ALGOS], seed)
    # the regular policy spaces as well: any exception out of a shipped scheduler or the executor is a C08 matter
    simcheck.run_f5(rep, "C08", tier, ["naive", "overbook", "busy:priority-pool", "busy:priority", "ratio:priority", "ratio:priority-pool", "twice:priority", "retrypreempt:priority", "scale:naive", "scale:overbook", "scale:starter", "longchain:naive", "longchain:priority", "longchain:priority-pool", "longchain:overbook", "longchain:starter"] if tier == "quick" else
                    ["naive", "overbook", "priority-pool", "priority", "busy:priority-pool", "busy:priority", "ratio:priority", "ratio:priority-pool", "sibling:priority", "sibling:priority-pool", "twice:priority", "retrypreempt:priority", "scale:naive", "scale:priority", "scale:priority-pool", "scale:overbook", "scale:starter", "longchain:naive", "longchain:priority", "longchain:priority-pool", "longchain:overbook", "longchain:starter"], seed)
    return rep.finish(PRED)


def replay(rec):
    return simcheck.replay(rec)
