"""C06 - completion, latency and returned statistics match an independent recount."""
from .. import simcheck


def main(tier, seed):
    rep = simcheck.sim_main("C06", tier, seed, ["F6"])
    return rep.finish()


def replay(rec):
    return simcheck.replay(rec)
