"""C02 - operator lifecycle follows the documented state machine; completion is final."""
from ..report import Report, Violation
from ..explorer import pmap
from ..families import f0
from .. import simcheck


def main(tier, seed):
    rep = Report("C02", tier, seed)
    rep.cov["rule"] = ("F0: BFS to fixpoint over (operator states, histogram) of the real PipelineRuntimeStatus for every DAG on <=3 operators, "
                       "every request (operator,target) in every state; the same BFS with a history-sensitive key (what each operator has been through), so that hidden memory inside the object cannot hide behind state merging; plus all request sequences to a fixed depth without merging. "
                       "non-trivial = distinct (DAG, state) pairs in which at least one request was refused and one accepted")
    ds = f0.dags(3)
    depth = 3 if tier == "quick" else 4
    res = pmap(lambda d: f0.bfs(d), ds)
    legal_edges = set()
    for d, r in zip(ds, res):
        rep.add_states({(str(d), s) for s in r["states"]})
        rep.cov["transitions"] += r["transitions"]
        rep.add_violations(r["violations"])
        rep.add_nontrivial({(str(d), s) for s in r["states"]})
        legal_edges |= r["edges"]
        rep.cov["evaluations"] += r["transitions"]
    rep.part("F0-bfs", dags=len(ds), states=sum(len(r["states"]) for r in res), accepted_edge_kinds=sorted(map(list, legal_edges)))
    # history-sensitive BFS: same requests, states separated by what each operator has been through
    q = tier == "quick"
    resh = pmap(lambda d: f0.bfs_hist(d, edges=(len(d) <= 2 or not q)), ds)
    for d, r in zip(ds, resh):
        rep.cov["transitions"] += r["transitions"]
        rep.cov["evaluations"] += r["transitions"]
        rep.add_violations(r["violations"])
        rep.add_states({(str(d), "h", s) for s in r["states"]})
    rep.part("F0-bfs-history-sensitive", key="visible state + per operator the set of state changes made so far (<=2 operators" + (")" if not q else "; 3 operators: the set of states visited)"),
             states=sum(len(r["states"]) for r in resh), longest_shortest_history=max(r["max_history"] for r in resh))
    res2 = pmap(lambda d: f0.stateless(d, depth), ds)
    extra = 0
    for d, r, b in zip(ds, res2, res):
        rep.cov["transitions"] += r["transitions"]
        rep.cov["evaluations"] += r["executions"]
        rep.cov["traces_validated_against_impl"] += r["executions"]
        rep.add_violations(r["violations"])
        if not r["states"] <= b["states"]:
            rep.add_violations([Violation("F0-stateless", "state-outside-bfs", f"DAG {d}: stateless depth-{depth} run reached states the BFS did not: {sorted(r['states'] - b['states'])[:3]}", dict(parents=d), [], family="F0")])
    rep.part("F0-stateless", depth=depth, sequences=sum(r["executions"] for r in res2))
    res3 = pmap(lambda d: f0.grow_histories(d, 4 if tier == "quick" else 6), ds)
    for r in res3:
        rep.cov["evaluations"] += r["executions"]
        rep.cov["transitions"] += r["executions"]
        rep.add_violations(r["violations"])
    rep.part("F0-grow", histories_with_a_grow_event=sum(r["executions"] for r in res3))
    rep.cov["bounds"] = dict(dag_nodes=3, stateless_depth=depth)
    rep.cov["rule"] += "; " + simcheck.RULE["F1"] + "; " + simcheck.RULE["F2"] + "; " + simcheck.RULE["F5"] + " (DAG-shape spaces): every logged transition legal, refused requests leave no trace, completed is final, an operator is in at most one live container"
    simcheck.run_f1(rep, "C02", tier)
    simcheck.run_f2(rep, "C02", tier)
    simcheck.run_f5(rep, "C02", tier, ["dag:naive", "dag:overbook", "dag:priority", "dag:priority-pool", "scale:naive", "scale:priority"], seed)
    rep.sample(dict(dag_parents=ds[7], example_history=[[0, "assigned"], [0, "running"], [1, "assigned"], [1, "running (refused: parent not completed)"]]))
    return rep.finish()


def replay(rec):
    if rec.get("family") == "F0g":
        sc = rec["scenario"]
        p, ops = f0.replay_history(sc["parents"], [tuple(x) for x in rec["choices"]])
        before = f0.key_of(p, ops)
        p.new_operator([ops[j] for j in sc["grow"]] or None)
        after = tuple(p.runtime_status().operator_states[o].value for o in ops)
        print("history", rec["choices"], "states before grow", before[0], "after", after)
        return 1 if after != before[0] else 0
    if rec.get("family") != "F0":
        return simcheck.replay(rec)
    sc = rec["scenario"]
    p, ops = f0.build(sc["parents"])
    p.runtime_status()
    bad = 0
    for i, t in rec["choices"]:
        acc, probs = f0.apply_request(p, ops, sc["parents"], i, t)
        print(f"request op{i} -> {t}: {'accepted' if acc else 'refused'}; state {f0.key_of(p, ops)}")
        for kind, d in probs:
            print(f"   PROBLEM {kind}: {d}")
            bad += 1
    return 1 if bad else 0
