"""Scenario -> real eudoxia objects; outside-in instrumentation; lock-step comparison of
the implementation with the reference executor after every phase of every tick."""
import traceback, sys, os
from fractions import Fraction as Fr
from . import boot
from .refmodel import (RefExecutor, Reject, Ambiguous, unique_timeline, fr, LIFECYCLE, P, A, R, S, C, F, near)

boot.load()
from eudoxia.workload.pipeline import Pipeline, Segment, Operator
from eudoxia.workload.runtime_status import PipelineRuntimeStatus, OperatorState
from eudoxia.executor.executor import Executor
from eudoxia.executor.assignment import Assignment, Suspend
from eudoxia.utils import Priority

PRIO = {"Q": Priority.QUERY, "I": Priority.INTERACTIVE, "B": Priority.BATCH_PIPELINE}
SV = {id(s): s.value for s in OperatorState}     # enum hashing/.value are slow; identity lookup is not
ALL_STATES = list(OperatorState)
_TL_CACHE = {}

# ---------------------------------------------------------------------------
# transition log (class-level wrapper, active only while a World is current)
# ---------------------------------------------------------------------------
CURRENT = None
_orig_transition = PipelineRuntimeStatus.transition
_HOOKED = False


def _transition(self, operator, new_state):
    w = CURRENT
    if w is None:
        return _orig_transition(self, operator, new_state)
    old = self.operator_states.get(operator)
    before_states = dict(self.operator_states)
    before_counts = dict(self.state_counts)
    try:
        _orig_transition(self, operator, new_state)
    except BaseException as e:
        w.on_refused(self, operator, old, new_state, before_states, before_counts, e)
        raise
    w.on_transition(self, operator, old, new_state)


def hook():
    global _HOOKED
    if not _HOOKED:
        PipelineRuntimeStatus.transition = _transition
        _HOOKED = True
    boot.own_ids()


def site_of(exc):
    """Innermost eudoxia function of a traceback (the 'raise site')."""
    tb = traceback.extract_tb(exc.__traceback__)
    site = ""
    for fr_ in tb:
        if os.sep + "eudoxia" + os.sep in fr_.filename and "/verif/" not in fr_.filename:
            site = fr_.name
    return site


# ---------------------------------------------------------------------------
# scenario building
# ---------------------------------------------------------------------------

def build_pipeline(pid, spec):
    """spec: dict(prio='B', parents=[[],[0],...], ops=[[seg,...],...])"""
    p = Pipeline(pid, PRIO[spec.get("prio", "B")])
    ops = []
    for i, segs in enumerate(spec["ops"]):
        par = [ops[j] for j in spec["parents"][i]] or None
        op = p.new_operator(par)
        for s in segs:
            op.add_segment(Segment(baseline_cpu_seconds=s.get("cpu", 0), cpu_scaling=s.get("scaling", "const"),
                                   memory_gb=s.get("mem"), storage_read_gb=s.get("read", 0)))
        ops.append(op)
    return p, ops


class Mismatch:
    def __init__(self, tags, kind, detail, site=""):
        self.tags = set(tags)
        self.kind = kind
        self.detail = detail
        self.site = site

    def __repr__(self):
        return f"<{sorted(self.tags)} {self.kind}: {self.detail}>"


class World:
    """One execution. All observation/comparison happens here; families only drive."""

    def __init__(self, sc, compare=True):
        global CURRENT
        hook()
        boot.fresh_execution(sc.get("id_mode", "asc"), sc.get("id_order"), sc.get("container_start", 1))
        self.sc = sc
        self.tps = sc["tps"]
        self.npools = sc.get("pools", 1)
        self.overcommit = bool(sc.get("overcommit", False))
        self.multi = bool(sc.get("multi", True))
        CURRENT = self
        self.tick = 0
        self.phase = "setup"
        self.tlog = []            # (seq, tick, phase, op, old, new)
        self.mm = []              # mismatches / violations (tagged)
        self.exception = None     # (phase, tick, exc, site)
        self.ended = False
        self.pipelines = []       # arrived, in order
        self.specs = {}
        self.opname = {}
        self.shadow = {}          # op -> state string, folded from the log
        self.started_seq = {}
        self.completed_seq = {}
        self.fps = set()
        self.transitions = 0
        self.stats = dict(accepted=0, results_ok=0, results_oom=0, susp_accepted=0, susp_done=0,
                          rejected=0, pool_kills=0, retries=0)
        self.all_pipes = []
        for i, ps in enumerate(sc.get("pipelines") or []):
            p, ops = build_pipeline(f"p{i+1}", ps)
            self.all_pipes.append((p, ops, ps))
            for j, op in enumerate(ops):
                self.opname[op] = f"p{i+1}.o{j}"
                self.specs[op] = ps["ops"][j]
        self.executor = Executor(num_pools=self.npools, cpus_per_pool=sc["cpus"], ram_gb_per_pool=sc["ram"],
                                 ticks_per_second=self.tps, allow_memory_overcommit=self.overcommit,
                                 multi_operator_containers=self.multi)
        self.model = RefExecutor(self.npools, sc["cpus"], sc["ram"], self.tps, self.overcommit, self.multi) if compare else None
        self.key_of_cid = {}      # impl container id -> model key
        self.cid_of_key = {}
        self.cont = {}            # key -> impl Container (while observable)
        self.result_count = {}    # key -> number of results seen
        self.last_results = []
        self.susp_track = {}      # key -> dict(start_tick, D, pool, cpu, ram, ops, cur)
        self.asg_seen = {}        # id(assignment) -> assignment (accepted)
        self.model_dead = False
        self.static_reject = None
        self.dirty_pipelines = set()
        self.last_reject = None   # reason for which the reference executor refused the last tick's commands (if it did)
        self.exec_call = None     # F6 routes the call to the unwrapped Executor.run_one_tick

    # -- helpers -----------------------------------------------------------
    def close(self):
        global CURRENT
        if len(self.pipelines) > 96 and not getattr(self, "_closed", False):
            self._closed = True
            try:
                self.boundary_checks(full=True)
            except Exception:
                pass
        if CURRENT is self:
            CURRENT = None

    def flag(self, tags, kind, detail, site=""):
        self.mm.append(Mismatch(tags, kind, detail, site))

    def name(self, op):
        return self.opname.get(op, "?")

    # -- transition log ----------------------------------------------------
    def on_transition(self, status, op, old, new):
        seq = len(self.tlog)
        o, n = (old.value if old is not None else None), new.value
        self.tlog.append((seq, self.tick, self.phase, op, o, n))
        try:
            self.dirty_pipelines.add(op.pipeline)
        except AttributeError:
            self.dirty_pipelines = {op.pipeline}
        try:
            self.cmp_dirty.add(op.pipeline)
        except AttributeError:
            self.cmp_dirty = {op.pipeline}
        sh = self.shadow.get(op, P)
        if sh != o:
            self.flag({"C02"}, "untracked-change", f"{self.name(op)}: log says {sh}, object said {o} before {o}->{n}")
        if n not in LIFECYCLE.get(o, ()):
            self.flag({"C02"}, "illegal-edge", f"{self.name(op)}: {o}->{n} accepted")
        if n == R:
            for par in op.parents:
                if self.shadow.get(par, P) != C:
                    self.flag({"C01", "C02"}, "started-before-parent",
                              f"{self.name(op)} -> running while parent {self.name(par)} is {self.shadow.get(par, P)}")
            self.started_seq[op] = seq
        if n == C:
            self.completed_seq[op] = seq
        if o == C:
            self.flag({"C02"}, "completed-not-final", f"{self.name(op)}: completed -> {n}")
        self.shadow[op] = n
        # histogram must follow
        cnt = status.state_counts
        if sum(cnt.values()) != len(status.operator_states):
            self.flag({"C02"}, "histogram-total", f"counts {dict((k.value, v) for k, v in cnt.items())}")

    def on_refused(self, status, op, old, new, before_states, before_counts, exc):
        if status.operator_states != before_states or status.state_counts != before_counts:
            self.flag({"C02"}, "refused-request-mutated", f"{self.name(op)}: refused {old.value if old else None}->{new.value} changed state or counts")
        o = old.value if old is not None else None
        legal = new.value in LIFECYCLE.get(o, ())
        if legal and new.value == R:
            legal = all(self.shadow.get(par, P) == C for par in op.parents)
        if legal:
            self.flag({"C02"}, "legal-request-refused", f"{self.name(op)}: {o}->{new.value} refused: {exc}")

    # -- arrivals ------------------------------------------------------------
    def arrive(self, idxs):
        new = []
        for i in idxs:
            p, ops, ps = self.all_pipes[i]
            new.append(p)
            self.register(p)
        return new

    def register(self, p, record=True):
        self.pipelines.append(p)
        try:
            self.arrived_set.add(p)
        except AttributeError:
            self.arrived_set = {p}
        ops = list(p.runtime_status().operator_states.keys())
        for j, op in enumerate(ops):
            self.shadow.setdefault(op, P)
            self.opname.setdefault(op, f"{p.pipeline_id}.o{j}")
        if self.model is not None:
            self.model.register(ops)
        if record:
            p.runtime_status().record_arrival(self.tick)

    # -- assignments ---------------------------------------------------------
    def make_assignment(self, ops, cpu, ram, pool, prio=None):
        """Build a real Assignment and compare accept/reject with the model. Returns the
        assignment or None (refused; the execution should end)."""
        self.phase = "sched"
        want = None
        bad_size = not (cpu > 0 and ram > 0)
        if bad_size:
            # no property says WHERE a size that is not positive has to be refused (when the assignment is built, or when
            # the executor gets it): try to build it; if that succeeds the executor-side model refuses the batch
            try:
                a = Assignment(ops=list(ops), cpu=cpu, ram=ram, priority=prio or ops[0].pipeline.priority, pool_id=pool, pipeline_id=ops[0].pipeline.pipeline_id)
            except Exception as e:
                self.exception = ("sched", self.tick, e, site_of(e))
                self.stats["rejected"] += 1
                self.ended = True
                return None
            self.note_scheduler_assignments([a])
            return a
        if self.model is not None and not self.model_dead:
            snap = dict(self.model.opstate)
            try:
                self.model.assign_ops(ops)
            except Reject as r:
                want = r
                self.model.opstate = snap
        before = {op: (SV[id(st_)]) for pl in self.pipelines for op, st_ in pl.runtime_status().operator_states.items()}
        try:
            a = Assignment(ops=list(ops), cpu=cpu, ram=ram, priority=prio or ops[0].pipeline.priority,
                           pool_id=pool, pipeline_id=ops[0].pipeline.pipeline_id)
        except Exception as e:
            self.exception = ("sched", self.tick, e, site_of(e))
            self.stats["rejected"] += 1
            # a refused hand-over leaves every operator that was not assignable (its request is the refused one, or it
            # was never part of the request) exactly as it was; assignable members may have been claimed or not
            for pl in self.pipelines:
                for op, st_ in pl.runtime_status().operator_states.items():
                    was = before.get(op)
                    now = SV[id(st_)]
                    if now != was and not (op in ops and was in (P, F) and now == A):
                        self.flag({"C02"}, "refused-assignment-changed-state", f"refused assignment of {[self.name(o) for o in ops]}: {self.name(op)} went {was} -> {now}")
            if self.model is not None and not self.model_dead and want is None:
                self.flag({"C02"}, "admissible-assignment-refused", f"{[self.name(o) for o in ops]}: {type(e).__name__}: {e}", site_of(e))
            self.ended = True
            return None
        if want is not None:
            self.flag({"C02"}, "inadmissible-assignment-accepted",
                      f"{[self.name(o) for o in ops]} ({want.reason}: {want.detail}) was accepted")
            self.model_dead = True
        return a

    def note_scheduler_assignments(self, asg):
        """Assignments built by a real scheduler: mirror them into the model."""
        if self.model is None or self.model_dead:
            return
        for a in asg:
            try:
                self.model.assign_ops(a.ops)
            except Reject as r:
                self.flag({"C02", "C08"}, "inadmissible-assignment-accepted",
                          f"{[self.name(o) for o in a.ops]} ({r.reason}: {r.detail}) was accepted")
                self.model_dead = True
                return

    # -- executor phase ------------------------------------------------------
    def timeline_of(self, a):
        ops = [self.specs.get(op) or spec_from_op(op) for op in a["ops"]]
        key = (tuple(tuple((g.get("cpu"), g.get("scaling"), g.get("mem"), g.get("read")) for g in o) for o in ops), a["cpu"], self.tps)
        tl = _TL_CACHE.get(key, 0)
        if tl == 0:
            tl = _TL_CACHE[key] = unique_timeline(ops, a["cpu"], self.tps)
        if tl is None:
            raise AmbiguousScenario()
        return tl

    def exec_phase(self, sus, asg):
        """Run one executor tick on the real executor and on the model; compare."""
        self.phase = "exec"
        ex = self.executor
        pre = [(p.avail_cpu_pool, p.avail_ram_pool, [c.container_id for c in p.active_containers],
                [c.container_id for c in p.suspending_containers]) for p in ex.pools]
        pre_ids = {c.container_id for p in ex.pools for c in list(p.active_containers) + list(p.suspending_containers)}
        results, exc = None, None
        # a reason that can be read off the decision alone (needs no timing model, so it is available even when the
        # reference executor has stopped following the run because a tick count became float-ambiguous)
        self.static_reject = "multi-op-disabled" if (not self.multi and any(len(a.ops) != 1 for a in asg)) else None
        try:
            results = (self.exec_call or ex.run_one_tick)(sus, asg)
        except Exception as e:
            exc = e
            self.exception = ("exec", self.tick, e, site_of(e))
        self.transitions += 1
        # map new containers to assignments
        if exc is None:
            # an assignment and its container / result are matched by WHICH operators they hold (an operator can be
            # in one assignment per tick only), not by the identity of the list object that carries them
            opkey = lambda ops: tuple(id(o) for o in ops)
            by_ops = {opkey(a.ops): a for a in asg}
            for p in ex.pools:
                for c in list(p.active_containers) + list(p.suspending_containers):
                    if c.container_id not in pre_ids and c.container_id not in self.key_of_cid:
                        a = by_ops.get(opkey(c.operators))
                        self._new_container(c.container_id, a, c)
            for r in results:
                if r.container_id not in self.key_of_cid and r.container_id not in pre_ids:
                    a = by_ops.get(opkey(r.ops))
                    self._new_container(r.container_id, a, None)
        self._compare(sus, asg, results, exc, pre)
        if exc is not None:
            self.ended = True
        else:
            self.last_results = results
            self.tick += 1
        self.phase = "between"
        return results

    def reject_reason(self):
        """why the last refused decision was inadmissible: the reference executor's reason, or (model not following) the static one"""
        return self.last_reject or (self.static_reject if self.model_dead or self.model is None else None)

    def _new_container(self, cid, a, c):
        self.pending_new = getattr(self, "pending_new", [])
        self.pending_new.append((cid, a, c))

    def _compare(self, sus, asg, results, exc, pre):
        ex = self.executor
        m = self.model
        new = getattr(self, "pending_new", [])
        self.pending_new = []
        # ---------- model-free invariants (direct statements of the properties) ----------
        if exc is None:
            self._invariants(asg, sus, results, new)
        if m is None or self.model_dead:
            return
        # ---------- lock-step with the reference executor ----------
        msus = [(self.key_of_cid.get(s.container_id), s.pool_id) for s in sus]
        masg = [dict(pool=a.pool_id, cpu=a.cpu, ram=a.ram, ops=a.ops, obj=a) for a in asg]
        obs_failed, obs_mem = set(), {}
        if exc is None:
            # keys of new containers are assigned in model creation order: pool order, batch order
            pass
        pred, rej = None, None
        # the model needs observed failures only to resolve either-way cases; new containers
        # do not have keys yet, so resolve via a provisional numbering identical to the model's
        prov = {}
        nk = m.nkeys
        for pid in range(self.npools):
            for a in masg:
                if a["pool"] == pid:
                    nk += 1
                    prov[id(a["obj"])] = nk
        if exc is None:
            for cid, a, c in new:
                if a is not None:
                    self.key_of_cid[cid] = prov[id(a)]
                    self.cid_of_key[prov[id(a)]] = cid
                    if c is not None:
                        self.cont[prov[id(a)]] = c
            for r in results:
                k = self.key_of_cid.get(r.container_id)
                if r.failed() and k is not None:
                    obs_failed.add(k)
            for p in ex.pools:
                for c in p.active_containers:
                    k = self.key_of_cid.get(c.container_id)
                    if k is not None:
                        obs_mem[k] = Fr(c.get_current_memory_usage())
        try:
            pred = m.step(msus, masg, self.timeline_of, obs_failed, obs_mem, exc is not None)
        except Reject as r:
            rej = r
        except (AmbiguousScenario, Ambiguous):
            self.model_dead = True
            self.ambiguous = True
            return
        self.last_reject = rej.reason if rej is not None else None
        if rej is not None:
            self.stats["rejected"] += 1
            if exc is None:
                tags = {"oversell-cpu": {"C03"}, "oversell-ram": {"C03"}, "bad-pool": {"C09"},
                        "suspend-not-running": {"C10"}, "suspend-not-at-boundary": {"C10"}, "suspend-twice": {"C10"},
                        "dependency": {"C01"}, "multi-op-disabled": {"C08"}, "bad-size": {"C03"}}.get(rej.reason, {"C09"})
                self.flag(tags, "inadmissible-command-executed", f"{rej.reason} (pool {rej.pool}) {rej.detail}: the tick ran without an error")
            else:
                # rejected as a whole: the offending pool is untouched (C03)
                if rej.reason.startswith("oversell") and rej.pool is not None:
                    p = ex.pools[rej.pool]
                    now = (p.avail_cpu_pool, p.avail_ram_pool, [c.container_id for c in p.active_containers],
                           [c.container_id for c in p.suspending_containers])
                    b = pre[rej.pool]
                    # no free figure moved, no container created (a suspension issued in the
                    # same tick may already have moved its container to the suspending list)
                    if now[0] != b[0] or now[1] != b[1] or set(now[2] + now[3]) != set(b[2] + b[3]):
                        self.flag({"C03"}, "rejected-batch-left-traces", f"pool {rej.pool}: before {b} after {now}")
            self.model_dead = True
            return
        if exc is not None:
            site = self.exception[3]
            tags = {"verify_valid_assignment": {"C03"}, "verify_valid_suspend": {"C10"}, "suspend_container": {"C10"},
                    "check_transition": {"C02"}, "transition": {"C02"}}.get(site, set()) | {"C08"}
            if site in ("_tick_generator", "tick", "run_one_tick", "kill", "_run_out_of_memory_killer", ""):
                tags |= {"C05", "C09"}
            if site in ("suspend_container_tick",):
                tags |= {"C10"}
            self.flag(tags, "admissible-command-raised", f"{type(exc).__name__}: {exc}", site)
            self.model_dead = True
            return
        # both accepted: compare results
        for s in sus:
            self.stats["susp_accepted"] += 1
        self.stats["accepted"] += len(asg)
        got = sorted((((self.key_of_cid.get(r.container_id) or r.container_id), "oom" if r.failed() else "ok") for r in results), key=str)
        want = sorted(pred, key=str)
        for info in m.pool_kill_info:
            self.stats["pool_kills"] += 1
            if not info["admissible"]:
                self.flag({"C11"}, "victims", f"tick {self.tick} pool {info['pool']}: {info['why']}; usage {float(info['total'])} cap {float(info['cap'])} "
                          f"candidates(key,use,alloc) {[(k, float(u), float(a)) for k, u, a in info['cands']]} killed {info['observed']}")
                self.model_dead = True
        if got != want:
            g, w = dict(got), dict(want)
            for k in sorted(set(g) | set(w), key=str):
                if g.get(k) == w.get(k):
                    continue
                rc = m.all.get(k)
                pair = (g.get(k), w.get(k))
                if pair[0] == "oom":       # killed although the model sees no reason
                    tags = {"C04"} | ({"C11"} if self.overcommit else {"C05"})
                elif pair[1] == "oom":     # survived (or finished) although its demand exceeded a limit
                    tags = {"C04", "C05"} | ({"C11"} if m.pool_kill_info else set())
                else:                      # finished early / late / not at all
                    tags = {"C05", "C09"}
                if rc is not None and rc.status in ("susp", "suspended"):
                    tags |= {"C10"}
                self.flag(tags, "result-mismatch", f"tick {self.tick} container {k}: implementation {g.get(k)}, model {w.get(k)}"
                          + (f" (timeline pos {rc.pos}/{len(rc.tl)}, status {rc.status})" if rc else ""))
            self.model_dead = True
        if self.model_dead:
            return  # everything below would only restate the same divergence
        for k, kind in pred:
            self.stats["results_" + kind] += 1
        # operator states (many pipelines: those the log or the model touched since the last comparison)
        cmp_pipes = self.pipelines
        if len(cmp_pipes) > 96:
            touched = set(getattr(self, "cmp_dirty", ()))
            for mp_ in m.pools:
                for rc_ in mp_.live:
                    for op_ in rc_.ops:
                        touched.add(op_.pipeline)
            for k_, _ in pred:
                rc_ = m.all.get(k_)
                if rc_ is not None:
                    for op_ in rc_.ops:
                        touched.add(op_.pipeline)
            for a_ in asg:
                for op_ in a_.ops:
                    touched.add(op_.pipeline)
            cmp_pipes = [p_ for p_ in touched if p_ in getattr(self, 'arrived_set', ())]
        self.cmp_dirty = set()
        for p in cmp_pipes:
            for op, st in p.runtime_status().operator_states.items():
                w = m.opstate.get(op)
                if st.value != w:
                    tags = {"C05"}
                    if st.value in (R, C) and any(par.state().value != C for par in op.parents):
                        tags |= {"C01"}
                    if S in (st.value, w) or (P in (st.value, w) and A in (st.value, w)):
                        tags |= {"C10"}
                    if {st.value, w} == {S, P}:
                        # a write-out that does not end when it is due (or ends early): the container has
                        # not ended in its one way (C09) and its allocation is not returned in that tick (C03)
                        tags |= {"C09", "C03"}
                    if F in (st.value, w):
                        tags |= {"C09"}
                    if st.value == C and w == R:
                        # reported complete while it still has ticks to run: if its container now offers itself for
                        # suspension, a suspension would be accepted in the middle of an operator (C10)
                        for pp in ex.pools:
                            for c in pp.active_containers:
                                if op in c.operators:
                                    try:
                                        if c.can_suspend_container():
                                            tags |= {"C10"}
                                    except Exception:
                                        pass
                    self.flag(tags, "operator-state-mismatch", f"tick {self.tick} {self.name(op)}: implementation {st.value}, model {w}")
                    self.model_dead = True
        if self.model_dead:
            return
        # pool figures and live sets
        for pid, p in enumerate(ex.pools):
            mp = m.pools[pid]
            if (p.avail_cpu_pool != mp.free_cpu or p.avail_ram_pool != mp.free_ram) and (Fr(p.avail_cpu_pool) != mp.free_cpu or not near(Fr(p.avail_ram_pool), mp.free_ram)):
                tags = {"C03"}
                if any(rc.status in ("susp",) for rc in mp.live) or any(t["pool"] == pid and t["end"] >= self.tick - 1 for t in self.susp_track.values()):
                    tags |= {"C10"}
                self.flag(tags, "free-figures-mismatch", f"tick {self.tick} pool {pid}: implementation cpu {p.avail_cpu_pool} ram {p.avail_ram_pool}, "
                          f"model cpu {float(mp.free_cpu)} ram {float(mp.free_ram)}")
                self.model_dead = True
            live_impl = sorted((self.key_of_cid.get(c.container_id, c.container_id) for c in list(p.active_containers) + list(p.suspending_containers)), key=str)
            live_model = sorted((rc.key for rc in mp.live), key=str)
            if live_impl != live_model:
                tags = {"C03", "C09"}
                if any(rc.status == "susp" for rc in mp.live) or len(p.suspending_containers):
                    tags |= {"C10"}
                self.flag(tags, "live-set-mismatch", f"tick {self.tick} pool {pid}: implementation {live_impl}, model {live_model}")
                self.model_dead = True
            tot = Fr(0)
            for c in p.active_containers:
                k = self.key_of_cid.get(c.container_id)
                rc = m.all.get(k)
                cap = getattr(rc, "mem_cap", None)
                if cap is not None and Fr(c.get_current_memory_usage()) > cap and not near(Fr(c.get_current_memory_usage()), cap):
                    self.flag({"C04", "C05"}, "container-memory-above-demand", f"tick {self.tick} container {k}: uses {c.get_current_memory_usage()}, but no segment of its current operator states more than {float(cap)}")
                if rc is None or rc.mem is None:
                    if rc is not None:
                        tot += Fr(c.get_current_memory_usage())
                    continue
                tot += rc.mem
                if c.get_current_memory_usage() != rc.mem and not near(Fr(c.get_current_memory_usage()), rc.mem):
                    self.flag({"C04", "C05"}, "container-memory-mismatch", f"tick {self.tick} container {k}: uses {c.get_current_memory_usage()}, model {float(rc.mem)}")
            if p.get_consumed_ram_gb() != tot and abs(Fr(p.get_consumed_ram_gb()) - tot) > Fr(1, 10**6):
                self.flag({"C04"}, "reported-usage-mismatch", f"tick {self.tick} pool {pid}: reports {p.get_consumed_ram_gb()}, running containers use {float(tot)}")
        # the flag schedulers rely on: suspendable exactly at an operator boundary (C10; C12 trusts it)
        for p in ex.pools:
            for c in p.active_containers:
                rc = m.all.get(self.key_of_cid.get(c.container_id))
                if rc is not None and rc.status == "run":
                    try:
                        flag = bool(c.can_suspend_container())
                    except Exception:
                        continue
                    if flag != bool(rc.boundary):
                        self.flag({"C10"}, "can-suspend-flag-wrong", f"tick {self.tick} container {rc.key}: can_suspend_container() says {flag}, "
                                  f"model: {'at' if rc.boundary else 'not at'} an operator boundary (position {rc.pos}/{len(rc.tl)})")
        for s in sus:
            k = self.key_of_cid.get(s.container_id)
            rc = m.all.get(k)
            if rc is not None:
                self.susp_track[k] = dict(pool=rc.pool, start=self.tick, end=self.tick + (rc.left or 0), cur=rc.cur)
        self.fps.add(m.fingerprint())

    # -- invariants that need no model ---------------------------------------
    def _invariants(self, asg, sus, results, new):
        ex = self.executor
        # C09: one new container per accepted assignment, in the named pool
        per_pool_new = {}
        for cid, a, c in new:
            if a is None:
                self.flag({"C09"}, "container-without-assignment", f"container {cid} appeared without a matching assignment")
            else:
                per_pool_new.setdefault(a.pool_id, []).append(cid)
                if c is not None and c.pool_id != a.pool_id:
                    self.flag({"C09", "C16"}, "container-in-wrong-pool", f"{cid} in pool {c.pool_id}, assignment named {a.pool_id}")
        if 0 <= min([a.pool_id for a in asg] + [0]) and max([a.pool_id for a in asg] + [0]) < self.npools:
            made = {id(a) for _, a, _ in new if a is not None}
            for a in asg:
                if id(a) not in made:
                    self.flag({"C09"}, "assignment-without-container", f"tick {self.tick}: accepted assignment for pool {a.pool_id} produced no container")
        if len({cid for cid, _, _ in new}) != len(new):
            self.flag({"C09"}, "duplicate-container", f"{[cid for cid, _, _ in new]}")
        for a in asg:
            if not (0 <= a.pool_id < self.npools):
                self.flag({"C09"}, "bad-pool-accepted", f"assignment for pool {a.pool_id} of {self.npools} was not rejected")
        for s in sus:
            if not (isinstance(s.pool_id, int) and 0 <= s.pool_id < self.npools):
                self.flag({"C09"}, "bad-pool-accepted", f"suspension for pool {s.pool_id} of {self.npools} was not rejected")
        # results
        live_now = {c.container_id for p in ex.pools for c in list(p.active_containers) + list(p.suspending_containers)}
        for r in results:
            n = self.result_count[r.container_id] = self.result_count.get(r.container_id, 0) + 1
            if n > 1:
                self.flag({"C09"}, "second-result", f"container {r.container_id} reported {n} results")
            if r.container_id in live_now:
                self.flag({"C09", "C03"}, "result-for-live-container", f"{r.container_id} reported a result but is still live")
            states = [op.state().value for op in r.ops]
            if not r.failed():
                if any(s != C for s in states):
                    self.flag({"C09", "C01"}, "success-with-unfinished-operator", f"{r.container_id}: {states}")
            else:
                if not r.error:
                    self.flag({"C09"}, "failure-without-error", f"{r.container_id}")
                k = 0
                while k < len(states) and states[k] == C:
                    k += 1
                if k == len(states) or any(s != F for s in states[k:]):
                    self.flag({"C09", "C05"}, "failure-shape", f"{r.container_id}: {states} is not completed* failed+")
        for p in ex.pools:
            # C03 conservation
            live = list(p.active_containers) + list(p.suspending_containers)
            ccpu = sum(c.assignment.cpu for c in live)
            cram = sum(c.assignment.ram for c in live)
            # (while a container of this pool is writing out, the same equation is what C10 says about it: it keeps its
            # whole allocation until the write-out ends)
            ctags = {"C03", "C10"} if len(p.suspending_containers) else {"C03"}
            if p.avail_cpu_pool + ccpu != p.max_cpu_pool:
                self.flag(ctags, "cpu-not-conserved", f"tick {self.tick} pool {p.pool_id}: free {p.avail_cpu_pool} + allocated {ccpu} != {p.max_cpu_pool}")
            if abs(p.avail_ram_pool + cram - p.max_ram_pool) > 1e-6:
                self.flag(ctags, "ram-not-conserved", f"tick {self.tick} pool {p.pool_id}: free {p.avail_ram_pool} + allocated {cram} != {p.max_ram_pool}")
            if p.avail_cpu_pool < 0:
                self.flag({"C03"}, "negative-free-cpu", f"tick {self.tick} pool {p.pool_id}: {p.avail_cpu_pool}")
            if p.avail_ram_pool < -1e-9 and not self.overcommit:
                self.flag({"C03"}, "negative-free-ram", f"tick {self.tick} pool {p.pool_id}: {p.avail_ram_pool}")
            if len({id(c) for c in live}) != len(live):
                self.flag({"C03", "C09"}, "container-listed-twice", f"pool {p.pool_id}")
            # an allocation is handed back (and the result delivered) in the very tick the container ends: a container
            # still listed as running at a tick boundary has an operator that is running or waiting its turn
            for c in p.active_containers:
                sts = [op.state().value for op in c.operators]
                if sts and (any(x == F for x in sts) or all(x == C for x in sts)):
                    self.flag({"C03", "C09"}, "allocation-held-after-end", f"tick {self.tick} pool {p.pool_id}: {c.container_id} is still listed as running and holds "
                              f"{c.assignment.cpu} CPU / {c.assignment.ram} GB although its operators are {sts}")
            # C04 limits and truthful usage
            use = 0.0
            for c in p.active_containers:
                u = c.get_current_memory_usage()
                use += u
                if u > c.assignment.ram + 1e-9:
                    self.flag({"C04"}, "over-own-limit", f"tick {self.tick} {c.container_id} uses {u} > {c.assignment.ram}")
            if use > p.max_ram_pool + 1e-6:
                self.flag({"C04"}, "over-capacity", f"tick {self.tick} pool {p.pool_id} uses {use} > {p.max_ram_pool}")
            if abs(p.get_consumed_ram_gb() - use) > 1e-6:
                self.flag({"C04"}, "reported-usage-wrong", f"tick {self.tick} pool {p.pool_id} reports {p.get_consumed_ram_gb()} but running containers use {use}")
        # C02: an operator belongs to at most one live container
        seen = {}
        for p in ex.pools:
            for c in list(p.active_containers) + list(p.suspending_containers):
                for op in c.operators:
                    if op in seen and seen[op] != c.container_id:
                        self.flag({"C02"}, "operator-in-two-live-containers", f"{self.name(op)} in {seen[op]} and {c.container_id}")
                    seen[op] = c.container_id

    # -- phase-boundary checks on ground truth ------------------------------
    def boundary_checks(self, full=False):
        shadow = self.shadow
        todo = self.pipelines
        if len(todo) > 96 and not full:
            # many pipelines: those that had a transition since the last look, the newest arrivals, and a window that
            # rotates over all the others (a change behind the log's back stays visible until the window reaches it;
            # close() looks at everything once more)
            dirty = self.dirty_pipelines
            k = self._rot = (getattr(self, "_rot", 0) + 48) % len(todo)
            todo = list(dirty) + todo[-8:] + (todo[k:k + 48] if k + 48 <= len(todo) else todo[k:] + todo[:(k + 48) % len(todo)])
            self.dirty_pipelines = set()
        elif getattr(self, "dirty_pipelines", None):
            self.dirty_pipelines = set()
        for p in todo:
            st = p.runtime_status()
            states = st.operator_states
            cnt = {}
            ncomp = 0
            for op, s in states.items():
                v = SV[id(s)]
                cnt[v] = cnt.get(v, 0) + 1
                if shadow.get(op, P) != v:
                    self.flag({"C02", "C01"}, "untracked-change", f"{self.name(op)} is {v} but the transition log says {shadow.get(op, P)}")
                if v == C:
                    ncomp += 1
                if (v == R or v == C) and op.parents:
                    for par in op.parents:
                        pv = SV[id(states[par])]
                        if pv != C:
                            self.flag({"C01"}, "running-with-unfinished-parent", f"{self.name(op)} is {v}, parent {self.name(par)} is {pv}")
                        elif self.completed_seq.get(par, 1 << 60) > self.started_seq.get(op, -1):
                            self.flag({"C01"}, "parent-completed-after-start", f"{self.name(op)} started at log #{self.started_seq.get(op)}, parent {self.name(par)} completed at #{self.completed_seq.get(par)}")
            sc = st.state_counts
            for s in ALL_STATES:
                if sc.get(s, 0) != cnt.get(SV[id(s)], 0):
                    self.flag({"C02", "C06"}, "histogram-wrong", f"{p.pipeline_id}: counts {s.value}={sc.get(s)} recount {cnt.get(s.value, 0)}")
            if st.is_pipeline_successful() != (ncomp == len(states)):
                self.flag({"C02", "C06"}, "success-flag-wrong", f"{p.pipeline_id}")


class AmbiguousScenario(Exception):
    pass


def spec_from_op(op):
    return [dict(cpu=s.baseline_cpu_seconds, scaling=_scaling_name(s), mem=s.memory_gb, read=s.storage_read_gb) for s in op.get_segments()]


def _scaling_name(seg):
    for name, f in Segment.SCALING_FUNCS.items():
        if f == seg.scaling_func:
            return name
    return "const"
