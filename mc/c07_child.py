"""Child interpreter for C07: runs a history of simulations in ONE process and prints, for every
run, its canonical event log (identifiers renumbered by first appearance) and statistics."""
import sys, os, json, math, hashlib

sys.path.insert(0, os.path.dirname(os.path.dirname(os.path.abspath(__file__))))


def canon_stats(st):
    d = st.to_dict()

    def fix(x):
        if isinstance(x, dict):
            return {k: fix(v) for k, v in x.items()}
        if isinstance(x, float) and math.isnan(x):
            return "nan"
        try:
            return float(x) if isinstance(x, float) or hasattr(x, "dtype") else x
        except Exception:
            return str(x)
    return fix(d)


CONFIGS = {}


def _mk():
    base = dict(duration=40, ticks_per_second=10, waiting_seconds_mean=2.0, num_pipelines=3, num_operators=3, random_seed=11,
                num_pools=2, cpus_per_pool=10, ram_gb_per_pool=300)
    for algo in ("naive", "priority", "priority-pool", "overbook"):
        for multi in (True, False):
            p = dict(base, scheduler_algo=algo, multi_operator_containers=multi)
            if algo == "overbook":
                p["allow_memory_overcommit"] = True
            if algo == "priority-pool" and not multi:
                # (single-operator mode is a recorded finding for this scheduler) use a second sizing instead
                p["multi_operator_containers"] = True
                p["cpus_per_pool"] = 20
                p["ram_gb_per_pool"] = 800
            if algo == "priority":
                p["cpus_per_pool"] = 1 if multi else 10
                p["ram_gb_per_pool"] = 64 if multi else 300
                p["query_prob"], p["interactive_prob"], p["batch_prob"] = 0.3, 0.2, 0.5
            CONFIGS[f"{algo}-{'multi' if multi else 'single'}"] = p


_mk()

# a scripted workload (trace) in which two batch containers reach their operator boundary in the same tick while two
# queries wait: both are preempted together, their write-outs end together, both are re-queued in one round and resumed
# one after the other - the order of resumption must come from the workload, not from hashing or container numbers
CONFIGS["priority-preempt-pair"] = dict(
    duration=4.6, ticks_per_second=100, scheduler_algo="priority", num_pools=1, cpus_per_pool=3, ram_gb_per_pool=30, multi_operator_containers=True,
    _csv="""pipeline_id,arrival_seconds,priority,operator_id,parents,baseline_cpu_seconds,cpu_scaling,memory_gb,storage_read_gb
A,0.0,BATCH_PIPELINE,op1,,1.0,const,,2
A,,,op2,op1,2.0,const,,2
B,0.0,BATCH_PIPELINE,op1,,1.0,const,,2
B,,,op2,op1,0.5,const,,2
C,0.0,BATCH_PIPELINE,op1,,10.0,const,,2
Q1,0.5,QUERY,op1,,0.5,const,,2
Q2,0.5,QUERY,op1,,1.5,const,,2
""")


# two features in sequence on ONE pipeline: a batch container is preempted for a query at its operator boundary, resumed,
# and the resumed work is then OOM-killed (6 GB on a 4 GB pool) and retried until given up; a second query arrives later.
# Anything a scheduler remembers about "pipelines that were preempted and then failed" outside its own instance shows up
# as a different second run in the same interpreter
CONFIGS["priority-preempt-then-oom"] = dict(
    duration=6, ticks_per_second=10, scheduler_algo="priority", num_pools=1, cpus_per_pool=1, ram_gb_per_pool=4, multi_operator_containers=True,
    _csv="""pipeline_id,arrival_seconds,priority,operator_id,parents,baseline_cpu_seconds,cpu_scaling,memory_gb,storage_read_gb
p1,0.0,BATCH_PIPELINE,op1,,1,const,1,0
p1,,,op2,op1,1,const,6,0
p2,0.5,QUERY,op1,,0.5,const,1,0
p3,0.0,BATCH_PIPELINE,op1,,0.5,const,1,0
p3,,,op2,op1,0.5,const,1,0
p3,,,op3,op2,0.5,const,1,0
p4,3.0,QUERY,op1,,0.5,const,1,0
""")


# an external policy over the REST bridge that packs operators of THREE pipelines into one container and then lets the
# reported pipeline id of running containers decide which pipeline is served next: whatever the bridge reports for such
# a container has to be the same in every process
CONFIGS["rest-mixed-container"] = dict(
    duration=3.0, ticks_per_second=10, scheduler_algo="rest", num_pools=1, cpus_per_pool=4, ram_gb_per_pool=64, multi_operator_containers=True,
    rest_poll_interval=0, rest_scheduler_addr="stub.invalid:1", _rest_policy="mixed",
    _csv="""pipeline_id,arrival_seconds,priority,operator_id,parents,baseline_cpu_seconds,cpu_scaling,memory_gb,storage_read_gb
orders,0.0,BATCH_PIPELINE,op1,,0.2,const,1,0
orders,,,op2,op1,0.3,const,1,0
billing,0.0,BATCH_PIPELINE,op1,,0.2,const,1,0
billing,,,op2,op1,0.5,const,1,0
audit,0.0,BATCH_PIPELINE,op1,,1.5,const,1,0
""")


def mixed_policy(pay, state):
    """reply to one /schedule request (sees the request only)"""
    pls = pay["new_pipelines"] + pay["other_pipelines"]
    pool = pay["pools"][0]
    none = dict(suspensions=[], assignments=[])
    if pool["avail_cpu"] < 1 or pool["avail_ram_gb"] < 4:
        return none
    if not state.get("packed") and len(pay["new_pipelines"]) >= 3:
        state["packed"] = True
        first = [next(o for o in pl["operators"] if o["parents_complete"] and o["is_assignable_state"]) for pl in pay["new_pipelines"][:3]]
        return dict(suspensions=[], assignments=[dict(operator_ids=[o["id"] for o in first], cpu=1, ram_gb=8, pool_id=0, priority=pay["new_pipelines"][0]["priority"],
                                                      is_resume=False, force_run=False)])
    busy = [c.get("pipeline_id") for c in pool["active_containers"]]
    ready = [(pl, o) for pl in pls for o in pl["operators"] if o["is_assignable_state"] and o["parents_complete"]]
    state["calls"] = state.get("calls", 0) + 1
    if not ready or state["calls"] < 5:      # wait until both second operators are ready: then the order is a real choice
        return none
    ready.sort(key=lambda po: 1 if po[0]["pipeline_id"] in busy else 0)    # pipelines reported as running somewhere go last
    pl, o = ready[0]
    return dict(suspensions=[], assignments=[dict(operator_ids=[o["id"]], cpu=1, ram_gb=4, pool_id=0, priority=pl["priority"], is_resume=False, force_run=False)])


def main():
    req = json.loads(sys.argv[1])
    from mc import boot
    boot.load()
    from mc.families import f6
    from mc import world
    from eudoxia.simulator import run_simulator
    from eudoxia.executor.executor import Executor
    from eudoxia.scheduler.scheduler import Scheduler
    from eudoxia.workload.runtime_status import PipelineRuntimeStatus
    if req.get("ids") in ("asc", "desc", "scramble"):
        boot.own_ids()
        boot.IDGEN.reset(req["ids"])
    out = []
    o_exec, o_sched = Executor.run_one_tick, Scheduler.run_one_tick
    for name in req["history"]:
        log = []
        names = {}
        opn = {}

        def cname(kind, x):
            k = (kind, x)
            if k not in names:
                names[k] = f"{kind}{sum(1 for q in names if q[0] == kind) + 1}"
            return names[k]

        def opname(op):
            if op not in opn:
                pl = op.pipeline
                ops = list(pl.values.node_lookup.values())
                opn[op] = f"{cname('pl', pl.pipeline_id)}.o{ops.index(op)}"
            return opn[op]

        def sched(self, results, pipelines):
            for p in pipelines:
                ops = list(p.values.node_lookup.values())
                log.append(["arrive", cname("pl", p.pipeline_id), p.priority.name,
                            [[sorted(ops.index(q) for q in o.parents), [(s.baseline_cpu_seconds, s.storage_read_gb, s.memory_gb) for s in o.get_segments()]] for o in ops]])
            sus, asg = o_sched(self, results, pipelines)
            for s in sus:
                log.append(["suspend", cname("c", s.container_id), s.pool_id])
            for a in asg:
                log.append(["assign", [opname(o) for o in a.ops], a.cpu, a.ram, a.pool_id, a.priority.name])
            return sus, asg

        def execu(self, sus, asg):
            res = o_exec(self, sus, asg)
            for r in res:
                log.append(["result", cname("c", r.container_id), [opname(o) for o in r.ops], r.error, r.pool_id])
            log.append(["tick"])
            return res
        Executor.run_one_tick = execu
        Scheduler.run_one_tick = sched
        try:
            cfg = dict(CONFIGS[name])
            csv_text = cfg.pop("_csv", None)
            policy = cfg.pop("_rest_policy", None)
            restore = None
            if policy is not None:
                import requests as _rq
                orig_send = _rq.adapters.HTTPAdapter.send
                pstate = {}

                def fake_send(adapter, request, _o=orig_send, **kw):
                    body = request.body
                    text = body.decode("utf-8") if isinstance(body, (bytes, bytearray)) else (body or "")
                    reply = {} if request.url.endswith("/init") else mixed_policy(json.loads(text), pstate)
                    resp = _rq.models.Response()
                    resp.status_code = 200
                    resp._content = json.dumps(reply).encode("utf-8")
                    resp.headers["Content-Type"] = "application/json"
                    resp.encoding = "utf-8"
                    resp.url = request.url
                    resp.request = request
                    return resp
                _rq.adapters.HTTPAdapter.send = fake_send
                restore = lambda: setattr(_rq.adapters.HTTPAdapter, "send", orig_send)
            if csv_text is not None:
                import io
                from eudoxia.workload.csv_io import CSVWorkloadReader
                st = run_simulator(cfg, workload=CSVWorkloadReader(io.StringIO(csv_text)).get_workload(cfg["ticks_per_second"]))
            else:
                st = run_simulator(cfg)
            stats = canon_stats(st)
            err = None
        except Exception as e:
            stats, err = None, f"{type(e).__name__}: {e}"
        finally:
            Executor.run_one_tick, Scheduler.run_one_tick = o_exec, o_sched
            if restore is not None:
                restore()
        out.append(dict(config=name, log=log, stats=stats, error=err))
    if req.get("digest"):
        for o in out:
            o["digest"] = hashlib.sha1(json.dumps(o["log"]).encode()).hexdigest()
            o["events"] = len(o["log"])
            del o["log"]
    print("C07RESULT " + json.dumps(out))


if __name__ == "__main__":
    main()
