"""Reference models, written from the README / property statements (not from the code).

 * timeline(...)     : the documented time-and-memory model of one container (C05)
 * RefExecutor       : executable model of pools/containers/commands (C01-C04, C09-C11)
 * LIFECYCLE         : the documented operator state machine (C02)
Exact rational arithmetic; float-boundary ambiguity is made explicit."""
import math, itertools
from fractions import Fraction as Fr

DISK = 20  # GB per simulated second, README "20GB/s scan"
REL = Fr(1, 10**9)

P, A, R, S, C, F = "pending", "assigned", "running", "suspending", "completed", "failed"
LIFECYCLE = {P: {A}, A: {R, S, F}, R: {C, F}, S: {P}, C: set(), F: {A}}
STATES = [P, A, R, S, C, F]


def fr(x):
    if isinstance(x, Fr):
        return x
    if isinstance(x, float):
        return Fr(repr(x))
    return Fr(x)


def near(a, b):
    """a and b within float rounding of each other (relative 1e-9)."""
    return abs(a - b) <= REL * max(abs(a), abs(b), 1)


def cpu_seconds(scaling, cpus, base):
    """The seven documented scaling laws. Returns (Fraction, exact?)"""
    base = fr(base)
    cpus_f = fr(cpus)
    if scaling == "const":
        return base, True
    if scaling == "linear3":
        return base / (cpus_f if cpus_f < 3 else 3), True
    if scaling == "linear7":
        return base / (cpus_f if cpus_f < 7 else 7), True
    if scaling == "squared":
        return base / (cpus_f * cpus_f), True
    if scaling == "exp":
        if cpus_f < 4:
            if cpus_f.denominator == 1:
                return base / (2 ** int(cpus_f)), True
            return Fr(float(base) / (2.0 ** float(cpus_f))), False
        return base / 16, True
    if scaling == "sqrt":
        r = math.isqrt(int(cpus_f)) if cpus_f.denominator == 1 else None
        if r is not None and r * r == cpus_f:
            return base / r, True
        return Fr(float(base) / math.sqrt(float(cpus_f))), False
    if scaling == "log":
        if cpus_f == 1:
            return base, True
        return Fr(float(base) / (math.log(float(cpus_f)) + 1.0)), False
    raise ValueError(scaling)


def is_pow2(n):
    return n >= 1 and (n & (n - 1)) == 0


def dyadic(x):
    return is_pow2(x.denominator) and x.denominator <= (1 << 40) and abs(x.numerator) < (1 << 50)


def tick_counts(x, exact=False):
    """Admissible integer tick counts for a real duration of x ticks: floor(x), plus the
    neighbour when x is within float rounding of an integer. exact: every intermediate of
    any float evaluation is representable (dyadic values, power-of-two tick rate), so there
    is no rounding and only floor(x) is admissible."""
    n = math.floor(x)
    out = {n}
    if exact and dyadic(x):
        return [n]
    band = REL * max(x, 1)
    if x - n <= band and n >= 1:
        out.add(n - 1)
    if (n + 1) - x <= band:
        out.add(n + 1)
    return sorted(out)


class Tick:
    __slots__ = ("op", "mem", "done", "first", "lit", "cap")

    def __init__(self, op, mem, done, first, lit=False, cap=None):
        self.cap = cap      # only with mem None: the demand is not fixed by any property, but it cannot exceed this much
        self.lit = lit      # mem is an input literal (no float arithmetic behind it)
        self.op = op        # index of the operator occupying this tick
        self.mem = mem      # Fraction demand in this tick, or None = unconstrained
        self.done = done    # True if the operator completes in this tick
        self.first = first  # True if the operator starts in this tick

    def __repr__(self):
        return f"T(op={self.op},mem={None if self.mem is None else float(self.mem)},done={self.done})"


def phase_specs(ops, cpus, tps):
    """ops: list of operators, each a list of segment dicts {cpu, scaling, mem, read}."""
    tps = fr(tps)
    p2 = tps.denominator == 1 and is_pow2(int(tps))
    specs = []
    for oi, segs in enumerate(ops):
        for si, s in enumerate(segs):
            ios = fr(s.get("read", 0)) / DISK
            cs, ex = cpu_seconds(s.get("scaling", "const"), cpus, s.get("cpu", 0) or 0)
            specs.append((oi, si, tick_counts(ios * tps, p2 and dyadic(ios)), tick_counts(cs * tps, p2 and ex and dyadic(cs))))
    return specs


def build_timeline(ops, tps, counts):
    """counts: list aligned with phase_specs -> (io_ticks, cpu_ticks)."""
    tps = fr(tps)
    pow2 = tps.denominator == 1 and (int(tps) & (int(tps) - 1)) == 0
    ticks = []
    k = 0
    for oi, segs in enumerate(ops):
        start = len(ticks)
        for si, s in enumerate(segs):
            io, cpu = counts[k]
            k += 1
            fixed = s.get("mem")
            read = fr(s.get("read", 0))
            for i in range(io):
                mem = fr(fixed) if fixed is not None else Fr(i + 1) / tps * DISK
                ticks.append(Tick(oi, mem, False, False, fixed is not None or pow2))
            for i in range(cpu):
                mem = fr(fixed) if fixed is not None else read
                ticks.append(Tick(oi, mem, False, False, True))
        if len(ticks) == start:
            # an operator occupies at least one tick; which of its segments' memory it shows there is not fixed by
            # any property - but it is one of them: never more than the largest demand any of its segments states
            cap = max([fr(s["mem"]) if s.get("mem") is not None else fr(s.get("read", 0)) for s in segs] or [Fr(0)])
            ticks.append(Tick(oi, None, False, False, cap=cap))
        ticks[start].first = True
        ticks[-1].done = True
    return ticks


def timelines(ops, cpus, tps, cap=512):
    """All admissible timelines (more than one only at float boundaries)."""
    specs = phase_specs(ops, cpus, tps)
    alts = [[(a, b) for a in s[2] for b in s[3]] for s in specs]
    n = 1
    for a in alts:
        n *= len(a)
    if n > cap:
        return None
    return [build_timeline(ops, tps, list(c)) for c in itertools.product(*alts)]


def unique_timeline(ops, cpus, tps):
    t = timelines(ops, cpus, tps, cap=1)
    return t[0] if t else None


def cmp_over(mem, limit, lit=False):
    """'over' / 'under' / 'either' for mem > limit with float-boundary slack. lit: mem is
    exactly representable as computed by any implementation (input literal, or dyadic
    arithmetic), so equality means 'does not exceed'."""
    if mem is None:
        return "either"
    limit = fr(limit)
    if mem == limit:
        return "under" if lit else "either"
    if near(mem, limit):
        return "either"
    return "over" if mem > limit else "under"


def tick_over(t, limit):
    """cmp_over for a timeline tick; a tick whose demand is only bounded (forced tick of a zero-tick operator) cannot
    exceed a limit its bound does not exceed"""
    if t.mem is None and t.cap is not None:
        return "under" if cmp_over(t.cap, limit, False) == "under" else "either"
    return cmp_over(t.mem, limit, t.lit)


def suspend_ticks(ram, tps):
    """floor(allocated_ram/20 x tps), at least one. Returns admissible set."""
    tps = fr(tps)
    secs = fr(ram) / DISK
    x = secs * tps
    p2 = tps.denominator == 1 and is_pow2(int(tps))
    return sorted({max(1, n) for n in tick_counts(x, p2 and dyadic(secs))})


# ---------------------------------------------------------------------------
# Executable reference model of the executor
# ---------------------------------------------------------------------------

class Ambiguous(Exception):
    pass


class Reject(Exception):
    def __init__(self, reason, pool=None, detail=""):
        super().__init__(f"{reason} pool={pool} {detail}")
        self.reason = reason
        self.pool = pool
        self.detail = detail


class RC:
    """Model container."""

    def __init__(self, key, pool, cpu, ram, ops, tl):
        self.key = key
        self.pool = pool
        self.cpu = cpu
        self.ram = fr(ram)
        self.ops = ops
        self.tl = tl
        self.pos = 0          # ticks executed
        self.cur = 0          # operators completed
        self.status = "run"   # run | susp | suspended | ok | oom
        self.left = None      # remaining write-out ticks
        self.boundary = False
        self.mem = Fr(0)      # demand in the last executed tick (None = unconstrained)
        self.mem_cap = None   # with an unconstrained demand: the bound it still has to respect
        self.done_now = False
        self.over_now = False

    def sig(self):
        return (self.pool, self.cpu, self.ram, len(self.ops), self.pos, self.cur, self.status, self.left)


class RefPool:
    def __init__(self, cpus, ram):
        self.cap_cpu = fr(cpus)
        self.cap_ram = fr(ram)
        self.free_cpu = fr(cpus)
        self.free_ram = fr(ram)
        self.live = []   # RC in creation order, status run|susp


class RefExecutor:
    def __init__(self, num_pools, cpus, ram, tps, overcommit=False, multi=True):
        self.n = num_pools
        self.tps = tps
        self.overcommit = overcommit
        self.multi = multi
        self.pools = [RefPool(cpus, ram) for _ in range(num_pools)]
        self.opstate = {}
        self.nkeys = 0
        self.all = {}         # key -> RC
        self.counts = dict(accepted=0, ok=0, oom=0, suspended=0)
        self.notes = []

    # -- pipelines and assignments -----------------------------------------
    def register(self, pipeline_ops):
        for op in pipeline_ops:
            self.opstate[op] = P

    def assign_ops(self, ops):
        """Model of building an assignment: operators must be assignable (pending or failed)."""
        if len(ops) == 0:
            raise Reject("empty-assignment")
        for op in ops:
            if self.opstate.get(op) not in (P, F):
                raise Reject("assign-state", detail=f"operator in state {self.opstate.get(op)}")
            self.opstate[op] = A

    # -- one executor tick ---------------------------------------------------
    def validate(self, sus, asg):
        """sus: list of (key or None, pool_id); asg: list of dicts(pool, cpu, ram, ops).
        Raises Reject for the first pool (in pool order) whose commands are inadmissible;
        out-of-range pool numbers are rejected before anything runs."""
        for k, p in sus:
            if not (isinstance(p, int) and 0 <= p < self.n):
                raise Reject("bad-pool", p, "suspension")
        for a in asg:
            if not (isinstance(a["pool"], int) and 0 <= a["pool"] < self.n):
                raise Reject("bad-pool", a["pool"], "assignment")

    def step(self, sus, asg, timeline_of, observed_failed=frozenset(), observed_mem=None, observed_raised=False):
        """Advance one tick. timeline_of(a) gives the unique timeline of an assignment.
        observed_failed: keys the implementation reported as failed in this tick (used only
        to resolve documented either-way cases). Returns list of (key, 'ok'|'oom')."""
        self.validate(sus, asg)
        results = []
        self.same_tick_dependency = False
        self.completed_this_tick = set()
        self.new_keys = []
        self.pool_kill_info = []
        for pid, pool in enumerate(self.pools):
            psus = [k for k, p in sus if p == pid]
            pasg = [a for a in asg if a["pool"] == pid]
            # 1. suspensions: only running containers of this pool at an operator boundary
            seen = set()
            for k in psus:
                rc = self.all.get(k)
                if rc is None or rc.status != "run" or rc.pool != pid:
                    raise Reject("suspend-not-running", pid)
                if not rc.boundary:
                    raise Reject("suspend-not-at-boundary", pid)
                if k in seen:
                    raise Reject("suspend-twice", pid)
                seen.add(k)
            for k in psus:
                rc = self.all[k]
                rc.status = "susp"
                d = suspend_ticks(rc.ram, self.tps)
                if len(d) != 1:
                    raise Ambiguous("write-out duration at a float boundary")
                rc.left = d[0]
                rc.mem = Fr(0)  # a container that no longer runs uses no memory (C04)
                for op in rc.ops[rc.cur:]:
                    assert self.opstate[op] == A
                    self.opstate[op] = S
            # 2. admission of the summed batch
            if pasg:
                if any(not (fr(a["cpu"]) > 0 and fr(a["ram"]) > 0) for a in pasg):
                    raise Reject("bad-size", pid, "an allocation of zero or negative size")
                ccpu = sum(fr(a["cpu"]) for a in pasg)
                cram = sum(fr(a["ram"]) for a in pasg)
                if ccpu > pool.free_cpu:
                    raise Reject("oversell-cpu", pid)
                if cram > pool.free_ram and not self.overcommit:
                    raise Reject("oversell-ram", pid)
                for a in pasg:
                    if not self.multi and len(a["ops"]) != 1:
                        raise Reject("multi-op-disabled", pid)
                for a in pasg:
                    self.nkeys += 1
                    rc = RC(self.nkeys, pid, a["cpu"], a["ram"], a["ops"], timeline_of(a))
                    a["key"] = rc.key
                    self.all[rc.key] = rc
                    pool.live.append(rc)
                    pool.free_cpu -= fr(a["cpu"])
                    pool.free_ram -= fr(a["ram"])
                    self.counts["accepted"] += 1
                    self.new_keys.append(rc.key)
            # 3. write-outs progress (the command's tick included)
            for rc in list(pool.live):
                if rc.status == "susp":
                    rc.left -= 1
                    if rc.left == 0:
                        rc.status = "suspended"
                        pool.live.remove(rc)
                        pool.free_cpu += fr(rc.cpu)
                        pool.free_ram += rc.ram
                        self.counts["suspended"] += 1
                        for op in rc.ops[rc.cur:]:
                            self.opstate[op] = P
            # 4. running containers execute one tick, in creation order
            running = [rc for rc in pool.live if rc.status == "run"]
            # operators that complete during this very tick (any pool): whether a child that starts in the same
            # tick sees them completed depends on the order in which containers are advanced, which no property
            # fixes - either outcome is admissible there (the log-order monitor still checks what was done)
            completing_now = set()
            for q in self.pools:
                for rc2 in q.live:
                    if rc2.status == "run" and rc2.pos < len(rc2.tl):
                        t2 = rc2.tl[rc2.pos]
                        if t2.done and tick_over(t2, rc2.ram) == "under":
                            completing_now.add(rc2.ops[t2.op])
            for rc in running:
                rc.boundary = False
                rc.done_now = False
                rc.over_now = False
                t = rc.tl[rc.pos]
                op = rc.ops[t.op]
                if t.first and self.opstate[op] != R:
                    missing = [par for par in op.parents if self.opstate.get(par) != C]
                    if not missing and observed_raised and any(par in self.completed_this_tick for par in op.parents):
                        # the parent completed earlier in THIS tick only because of the order in which this model
                        # advances pools/containers; an implementation advancing them in another order refuses
                        raise Reject("dependency", pid, "parent completes in the same tick (order-dependent, either way admissible)")
                    if missing:
                        if all(par in completing_now for par in missing):
                            self.same_tick_dependency = True
                            if observed_raised:
                                raise Reject("dependency", pid, "parent completes in the same tick (order-dependent, either way admissible)")
                        else:
                            raise Reject("dependency", pid, "operator would start before a parent completed")
                    assert self.opstate[op] == A, self.opstate[op]
                    self.opstate[op] = R
                rc.mem = t.mem
                c = tick_over(t, rc.ram)
                rc.mem_cap = t.cap if t.mem is None else None
                if c == "either":
                    c = "over" if rc.key in observed_failed else "under"
                if t.mem is None and observed_mem is not None:
                    rc.mem = observed_mem.get(rc.key, Fr(0))
                if c == "over":
                    rc.over_now = True
                    continue  # frozen until killed (in this same tick)
                rc.pos += 1
                if t.done:
                    self.opstate[op] = C
                    self.completed_this_tick.add(op)
                    rc.cur += 1
                    if rc.cur == len(rc.ops):
                        rc.done_now = True
                        rc.mem = Fr(0)
                    else:
                        rc.boundary = True
            # 5. kills
            killed = []
            for rc in running:
                if rc.over_now:
                    killed.append(rc)
            for rc in killed:
                rc.mem = Fr(0)
            alive = [rc for rc in running if not rc.done_now and not rc.over_now]
            total = sum((rc.mem or Fr(0)) for rc in alive)
            if total > pool.cap_ram:
                cands = [rc for rc in alive if (rc.mem or 0) > 0]
                scored = sorted(cands, key=lambda rc: -(rc.mem * rc.mem / rc.ram))
                # admissible victim sets: descending score, stop as soon as usage fits; ties free
                obs = [rc for rc in cands if rc.key in observed_failed]
                ok, why = victims_admissible(scored, obs, total, pool.cap_ram)
                self.pool_kill_info.append(dict(pool=pid, total=total, cap=pool.cap_ram,
                                                cands=[(rc.key, rc.mem, rc.ram) for rc in scored],
                                                observed=[rc.key for rc in obs], admissible=ok, why=why))
                if ok:
                    chosen = obs
                else:
                    chosen = default_victims(scored, total, pool.cap_ram)
                for rc in chosen:
                    rc.over_now = True
                    rc.mem = Fr(0)
                    killed.append(rc)
            # 6. results and release
            for rc in running:
                if rc.done_now or rc.over_now:
                    pool.live.remove(rc)
                    pool.free_cpu += fr(rc.cpu)
                    pool.free_ram += rc.ram
                    if rc.over_now:
                        rc.status = "oom"
                        for op in rc.ops[rc.cur:]:
                            self.opstate[op] = F
                        self.counts["oom"] += 1
                        results.append((rc.key, "oom"))
                    else:
                        rc.status = "ok"
                        self.counts["ok"] += 1
                        results.append((rc.key, "ok"))
        return results

    def fingerprint(self):
        return hash((tuple(self.opstate.values()),
                     tuple((p.free_cpu, p.free_ram, tuple(rc.sig() for rc in p.live)) for p in self.pools)))


def default_victims(scored, total, cap):
    out = []
    for rc in scored:
        if total <= cap:
            break
        out.append(rc)
        total -= rc.mem
    return out


def victims_admissible(scored, obs, total, cap):
    """C11: (i) no survivor has a strictly higher score than a victim; (ii) the remaining
    usage fits and removing any one lowest-scored victim from the set would not have fitted
    (no unnecessary kill); (iii) candidates only (done by construction)."""
    if not obs:
        return False, "usage exceeds capacity but nothing was killed"
    sc = lambda rc: rc.mem * rc.mem / rc.ram
    vmin = min(sc(rc) for rc in obs)
    for rc in scored:
        if rc not in obs and sc(rc) > vmin:
            return False, f"container {rc.key} with strictly higher score survived"
    rest = total - sum(rc.mem for rc in obs)
    if rest > cap:
        return False, "remaining usage still exceeds capacity"
    lows = [rc for rc in obs if sc(rc) == vmin]
    if all(rest + rc.mem <= cap for rc in lows):
        return False, "a kill was not needed: usage already fitted without the lowest-scored victim"
    return True, ""
