HOOK_COMMITS = []
NOTES = ("All checks run /verif/check <id>, which imports eudoxia from /repo's working tree (editable install + explicit path) "
         "and explores it exhaustively within the bounds printed in each evidence file. known_findings.json lists recorded defects "
         "(fixed ones are 'fix:' commits in /repo). No source hooks are needed: instrumentation wraps public entry points from outside.")
T_SIM = "stateless deviation-bounded exhaustive exploration of command sequences on the real executor, lock-step against an executable reference model (exact rationals)"
TRUST = "Trusted: Python semantics, the reference models in mc/refmodel.py (transcribed from README/property text), exact-arithmetic alphabets (dyadic values) for lock-step comparison. Bounded: <=4 pipelines, <=4 operators, <=3 pools, horizons <=40 ticks."
CHECKS = [
    dict(property_id="C02",
         technique="explicit-state BFS to fixpoint over the real lifecycle object + bounded-depth stateless enumeration of request sequences; transition-log monitors on exhaustively enumerated simulations",
         text="Complete reachable state space of the real PipelineRuntimeStatus for all 11 DAGs on <=3 operators with every request in every state, all request sequences to depth 3/4 without state merging, and every transition of every enumerated simulation checked against the documented table.",
         note="Trusted: Python semantics; the documented table as transcribed in mc/refmodel.py LIFECYCLE. Bounded to DAGs of <=3 operators for the object-level search."),
    dict(property_id="C03", technique=T_SIM,
         text="Every command sequence with <=2 (quick) / <=3 (thorough) deviations from a default policy over 6-10 ticks on 1-2 pools, every suspension placement (F2) and every 2-4 container memory mix (F3): conservation equation, non-negativity, ledger-predicted live set and batch atomicity checked after every executor tick.",
         note=TRUST),
    dict(property_id="C04", technique=T_SIM,
         text="All ordered 2-4 container mixes of fixed/growing/zero-memory profiles x allocations x offsets with and without overcommit, plus F1/F2 executions: per-tick limits, truthful reported usage, and every kill justified by model-predicted demand.",
         note=TRUST),
    dict(property_id="C05", technique="exhaustive enumeration of an operator-list x cpus x ram x tick-rate alphabet on the real container, matched tick-by-tick against all admissible timelines of an exact-rational model (NFA-style)",
         text="~46k (quick) / ~1M (thorough) container runs covering zero/sub-tick/1/2.5-tick I/O and CPU phases, all seven scaling laws, memory unset/0/small/over, allocations below/just below/at/above the peak and tick rates 1..100000; float-boundary cases accept either side as the property allows.",
         note="Trusted: the timeline model (mc/refmodel.py); log/sqrt laws evaluated in floats with a 1e-9 relative boundary band."),
    dict(property_id="C09", technique=T_SIM,
         text="Same executions as C03: one container per accepted assignment in the named pool, at most one result per container in the tick it leaves, success iff all operators completed, failure shape completed* failed+, unknown pools rejected, counts identity via the reference ledger.",
         note=TRUST),
    dict(property_id="C10", technique=T_SIM,
         text="Suspension requested at every tick of every container life (and of every container ever seen: suspending, suspended, finished, unknown) for allocations 0.5 GB..whole pool and write-outs of 1..32 ticks, alone or beside a running/finishing/failing neighbour; acceptance, duration, held/freed resources, operator hand-back and successful re-assignment checked against the model.",
         note=TRUST),
    dict(property_id="C11", technique=T_SIM,
         text="All 2-4 container sets of the memory-profile alphabet with overcommit (ties, several victims, finished and zero-usage containers in the crossing tick): the killed set must be an admissible victim set (descending score, stop as soon as usage fits, ties free) computed from model demand.",
         note=TRUST),
]
_PENDING = "check not built yet in this session; will be claimed when its driver exists"
NOT_APPLICABLE = [dict(property_id=f"C{i:02d}", reason=_PENDING) for i in range(1, 21) if f"C{i:02d}" not in {c["property_id"] for c in CHECKS}]
