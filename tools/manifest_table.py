HOOK_COMMITS = []
NOTES = ("All checks run /verif/check <id>, which imports eudoxia from /repo's working tree (editable install + explicit path) "
         "and explores it exhaustively within the bounds printed in each evidence file. known_findings.json lists recorded defects.")
CHECKS = [
    dict(property_id="C02",
         technique="explicit-state BFS to fixpoint over the real lifecycle object + bounded-depth stateless enumeration of request sequences; transition-log monitors on exhaustively enumerated simulations",
         text="Complete reachable state space of the real PipelineRuntimeStatus for all 11 DAGs on <=3 operators with every request in every state, all request sequences to depth 3/4 without state merging, and every transition of every enumerated simulation checked against the documented table.",
         note="Trusted: Python semantics; the documented table as transcribed in mc/refmodel.py LIFECYCLE. Bounded to DAGs of <=3 operators for the object-level search."),
]
_PENDING = "check not built yet in this session; will be claimed when its driver exists"
NOT_APPLICABLE = [dict(property_id=f"C{i:02d}", reason=_PENDING) for i in range(1, 21) if f"C{i:02d}" not in {c["property_id"] for c in CHECKS}]
