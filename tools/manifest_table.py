HOOK_COMMITS = []
NOTES = ("All checks run /verif/check <id>, which imports eudoxia from /repo's working tree (editable install + explicit path) "
         "and explores it exhaustively within the bounds printed in each evidence file. known_findings.json lists recorded defects "
         "(fixed ones are 'fix:' commits in /repo). No source hooks are needed: instrumentation wraps public entry points from outside.")
T_SIM = "stateless deviation-bounded exhaustive exploration of command sequences on the real executor, lock-step against an executable reference model (exact rationals)"
TRUST = "Trusted: Python semantics, the reference models in mc/refmodel.py (transcribed from README/property text), exact-arithmetic alphabets (dyadic values) for lock-step comparison. Bounded: <=4 pipelines, <=4 operators, <=3 pools, horizons <=40 ticks in the exhaustive drivers; single deterministic scale executions (many pipelines / containers / suspensions / ticks) whose size follows the numeric constants of the tree under check (mc/scale.py), up to stated caps."
CHECKS = [
    dict(property_id="C02",
         technique="explicit-state BFS to fixpoint over the real lifecycle object (visible-state key, and a history-sensitive key: per operator the set of state changes made so far) + bounded-depth stateless enumeration of request sequences; transition-log monitors on exhaustively enumerated simulations",
         text="Complete reachable state space of the real PipelineRuntimeStatus for all 11 DAGs on <=3 operators with every request in every state, the same search with states separated by what each operator has been through (so hidden memory in the object cannot hide behind merging), all request sequences to depth 3/4 without state merging, and every transition of every enumerated simulation checked against the documented table.",
         note="Trusted: Python semantics; the documented table as transcribed in mc/refmodel.py LIFECYCLE. Bounded to DAGs of <=3 operators for the object-level search."),
    dict(property_id="C03", technique=T_SIM,
         text="Every command sequence with <=2 (quick) / <=3 (thorough) deviations from a default policy over 6-10 ticks on 1-2 pools, every suspension placement (F2) and every 2-4 container memory mix (F3): conservation equation, non-negativity, ledger-predicted live set and batch atomicity checked after every executor tick.",
         note=TRUST),
    dict(property_id="C04", technique=T_SIM,
         text="All ordered 2-4 container mixes of fixed/growing/zero-memory profiles x allocations x offsets with and without overcommit, plus F1/F2 executions (F2 with a consequence probe: the pool is filled as a scheduler would, trusting its own free figures): per-tick limits, truthful reported usage, and every kill justified by model-predicted demand.",
         note=TRUST),
    dict(property_id="C05", technique="exhaustive enumeration of an operator-list x cpus x ram x tick-rate alphabet on the real container, matched tick-by-tick against all admissible timelines of an exact-rational model (NFA-style); the memory-mix family (2-5 containers per pool) in lock-step with the reference executor",
         text="~46k (quick) / ~1M (thorough) container runs covering zero/sub-tick/1/2.5-tick I/O and CPU phases, all seven scaling laws, memory unset/0/small/over, allocations below/just below/at/above the peak and tick rates 1..100000; float-boundary cases accept either side as the property allows; plus all 2-5 container memory mixes (neighbours finishing / created / killed in the tick a demand jumps).",
         note="Trusted: the timeline model (mc/refmodel.py); log/sqrt laws evaluated in floats with a 1e-9 relative boundary band."),
    dict(property_id="C09", technique=T_SIM,
         text="Same executions as C03: one container per accepted assignment in the named pool, at most one result per container in the tick it leaves, success iff all operators completed, failure shape completed* failed+, unknown pools rejected, counts identity via the reference ledger.",
         note=TRUST),
    dict(property_id="C10", technique=T_SIM,
         text="Suspension requested at every tick of every container life (and of every container ever seen: suspending, suspended, finished, unknown) for allocations 0.5 GB..whole pool and write-outs of 1..32 ticks, alone or beside a running/finishing/failing neighbour; acceptance, duration, held/freed resources, operator hand-back and successful re-assignment checked against the model.",
         note=TRUST),
    dict(property_id="C11", technique=T_SIM,
         text="All 2-4 container sets of the memory-profile alphabet with overcommit (ties, several victims, finished and zero-usage containers in the crossing tick): the killed set must be an admissible victim set (descending score, stop as soon as usage fits, ties free) computed from model demand.",
         note=TRUST),
]

T_F5 = "exhaustive enumeration of a scenario alphabet (arrivals x priorities x DAG shapes x profiles x pools x mode x tick rate) through the real scheduler + real executor, per-round policy predicates and lock-step reference executor; single deterministic scale executions (thousands of pipelines, very long chains) sized from the numeric constants of the tree under check"
CHECKS += [
    dict(property_id="C01", technique="exhaustive enumeration of all DAGs on <=5/6 nodes (iteration) + deviation-bounded exploration of admissible and inadmissible command sequences + exhaustive scheduler scenario spaces; transition-log ordering monitor",
         text="Every DAG on <=5 (quick) / <=6 (thorough, 33 867) operators iterated through the real Pipeline; F1 command sequences incl. child-before-parent packings on chain/diamond/join/fork; all five shipped schedulers on all six DAG shapes with OOM->retry and preemption->resume. Every ->RUNNING in the transition log must be preceded by ->COMPLETED of every parent; inadmissible starts must raise.",
         note=TRUST),
    dict(property_id="C06", technique="exhaustive enumeration of a workload/config alphabet through the REAL run_simulator; independent recount from recorded arrivals, decisions, results and the transition log",
         text="~190k (quick) real run_simulator runs: 0-3 scripted pipelines (incl. none, after-the-end arrivals, never-fitting work), all priority assignments, durations 0.4/1/8/20 ticks, 8 scheduler configurations, tick rates 1,2(,10): every returned statistic recomputed; completion declared exactly once in the tick of the last ->COMPLETED; uncontended chains finish in exactly their summed ticks.",
         note="Trusted: the recount code in mc/families/f6.py (own percentile), class-level wrappers around Scheduler/Executor entry points. Container p99 is not recounted (not in the statement)."),
    dict(property_id="C08", technique="exhaustive enumeration of configuration grids through the real run_simulator (real generator) and of corner workload alphabets through every shipped scheduler in lock-step; any exception or inadmissible decision is a violation",
         text="All 66 probability triples, pools 1-3 x cpus 1..64 x ram 0.5..256 x both container modes, durations from 0.4 tick to 60 s at tick rates 1..100000, for naive/priority/priority-pool/overbook/starter(eudoxia init -s); plus zero-tick operators, growing memory and never-fitting operators on 1-CPU / sub-GB pools and all six DAG shapes.",
         note="Known finding F-C08-priority-pool-single-op is reported as KNOWN-FINDING (exact signature + predicate). Generator runs use seeds 0(,1,2) only."),
    dict(property_id="C12", technique=T_F5,
         text="priority on 12-20 pool configurations (1-CPU pools so that preemption happens, write-outs of 1-8 ticks) and priority-pool: per round - no lower class assigned while a higher-class ready pending operator waits, FIFO of first containers per class, work conservation, suspension only of running non-query containers at a model-confirmed boundary while query work waits, at most one per waiting query job; resumed work is offered again (via work conservation).",
         note=TRUST + " FAILED operators are outside the order/conservation clauses (the statement says pending)."),
    dict(property_id="C16", technique=T_F5,
         text="priority-pool on two pools over all priority mixes/arrival patterns/DAG shapes with OOM->retry chains: pool 0 iff query/interactive, pool 1 iff batch for firsts and retries, never a suspension, retry = exactly the unfinished operators, doubled request reaching half of the pool is never assigned; isolation also as non-interference (every mixed scenario re-run without its batch pipelines: identical pool-0 decisions).",
         note=TRUST),
    dict(property_id="C17", technique=T_F5,
         text="naive on 1-3 pools, both container modes: <=1 container per pool per round with exactly the pool's free CPU/RAM, first containers in arrival order, never suspends, never assigns a pipeline with a failed operator, single ready operator per container when multi-operator containers are off.",
         note=TRUST),
    dict(property_id="C18", technique=T_F5,
         text="overbook with overcommit on 1-2 pools x 1-3 CPUs x 4/8 GB with pool-killer-triggering profiles: each assignment = one ready operator, 1 CPU, RAM = pool capacity; never more containers than CPUs; no ready operator of a live pipeline waits while a CPU is free after a triggered round; no assignment after 3 failed containers.",
         note=TRUST),
]

CHECKS += [
    dict(property_id="C07", technique="exhaustive enumeration of ordered run histories in one interpreter vs fresh interpreters, of hash seeds x identifier generators, of all 720 identifier orders, and of a seeds x non-workload-settings grid; canonical event-log equality",
         text="All 64 (quick) / 512 (thorough) ordered histories over 8 configurations: every run's canonical tick-by-tick log and statistics equal the same configuration alone in a fresh interpreter; PYTHONHASHSEED 0..3/0..11 x {real uuid4 twice, ascending, descending, scrambled identifiers}; all 720 relative orders of a diamond pipeline's identifiers; generated workload identical across 48 scheduler/executor settings per seed and through run_simulator, all seed pairs differ.",
         note="Bounded enumerations of unbounded spaces (hash seeds, identifier values through their relative orders). Child interpreters cost ~0.8 s each."),
    dict(property_id="C13", technique="exhaustive enumeration of the (tick, tick-rate) grid through the real trace writer/reader/replayer with an exact rational oracle",
         text="Every tick 0..2000 (quick) / 0..50000 (thorough) plus windows at 10^6 and 10^7 for ten tick rates (gentrace round trip), hand-written decimal arrivals on/off the grid with 0-3 pipelines per value, gaps and arrivals beyond the end for 13 tick rates, the real gentrace CLI against a fresh generator, and `run` against `gentrace` + `run -w` through the real main loop for durations that are not whole numbers of ticks: delivered exactly once, in the exact tick, in file order, same run length.",
         note="Known finding F-C13-grid-arrival-one-tick-late (exact predicate evaluated by the checker) is reported as KNOWN-FINDING; anything else is a violation."),
    dict(property_id="C14", technique="exhaustive enumeration of all DAGs on <=5/6 nodes x value alphabets through the real writer and reader; every single-rule corruption of a valid file",
         text="1 099 (quick) / 33 867 (thorough) DAG shapes with cycled value alphabets (0, 1, 15, 0.1, 37.5, 1e-9, 1e9, 1/3; 7 laws; memory unset/0/0.5), 1-3 pipelines per arrival, the full per-field product on a single operator, and pairs of rows whose values differ only below 1e-9: write->read structure equality, read->write row equality; 24 corrupted files must be refused.",
         note="Values are cycled over DAGs, not the full product per DAG."),
    dict(property_id="C15", technique="the generator's RNG replaced by an enumerating environment: all answer sequences up to a deviation bound; exact discretised expectations over 256 quantiles; seed range",
         text="All answer sequences with <=2/3 non-default answers (class choices, z in a 10-point grid, every integer / unit-interval answer if the generator draws that way) over 3 arrival events for num_pipelines 1-3 x num_operators 1,2,5 x waiting mean 0.4/3/50 ticks x probability triples with zeros; argument binding for all 66 triples in tenths and 9 with a zero and non-whole-percent members; operator-count, gap and prototype-rank distributions computed exactly over 256 equiprobable quantiles for cpu_io_ratio 0..1; the real numpy generator for 64/2000 seeds.",
         note="Assumes numpy's normal/choice follow their arguments. Distribution clauses are decided over a discretised RNG."),
    dict(property_id="C19", technique="stateless deviation-bounded exhaustive exploration of external decision sequences against the real run_simulator(rest) over an in-process JSON transport whose replies can be lost after processing; ground-truth comparison at every call; in-process replay equivalence; loop-back HTTP conformance",
         text="All reply sequences with <=2/3 non-default replies over <=10 calls for poll intervals 0/0.5/1/2.5, tick rates 1,(2),10, 1-2 pools, both container modes: every request equals ground truth (results, pools, containers, operator states), tainted segment figures never appear, new/other disjoint, completion reported once, call timing, decisions executed as given, statistics equal an in-process replay; six traces repeated over a real loop-back http.server.",
         note="The Go reference scheduler is not built or run (no Go toolchain in the image)."),
    dict(property_id="C20", technique="exhaustive enumeration of the (arrival, tick-rate) grid through the real snap tool with an exact Decimal oracle; jitter with numpy's generator replaced by an enumerating one (all answer sequences); in-process sensitivity-sample",
         text="snap: every grid point k/tps (k<=2000/50000) and off-grid points for 13 decimal tick rates, whole seconds and mid-points for 3,7,60: never up, less than a tick, onto a boundary, idempotent, other columns intact. jitter: all 3^n answer sequences for traces of <=4 pipelines with ties/gaps, seeds 0..63/999 twice each. sensitivity-sample: the real command in-process, workload i = seed start_seed+i, samples differ.",
         note="jitter's distribution is not tested, only bounds/order/reproducibility."),
]
_PENDING = "check not built yet in this session; will be claimed when its driver exists"
NOT_APPLICABLE = [dict(property_id=f"C{i:02d}", reason=_PENDING) for i in range(1, 21) if f"C{i:02d}" not in {c["property_id"] for c in CHECKS}]
