"""Developer tool: run a family over its scenarios and list all mismatch signatures, any tag."""
import sys, collections, json
sys.path.insert(0, '/verif')
from mc import boot; boot.load()
from mc.families import f1
tier = sys.argv[1] if len(sys.argv) > 1 else 'quick'
bound = int(sys.argv[2]) if len(sys.argv) > 2 else 2
g = collections.OrderedDict()
for sc in f1.scenarios(tier):
    tot = f1.explore(sc, bound)
    for tags, kind, site, detail, ch in tot['mm']:
        k = (tuple(tags), kind, site)
        e = g.setdefault(k, [0, None])
        e[0] += 1
        if e[1] is None or len(ch) < len(e[1][2]):
            e[1] = (sc['name'], detail, ch)
    print(sc['name'], tot['execs'], file=sys.stderr)
for k, (n, ex) in g.items():
    print(n, k, '\n     ', ex)
