#!/bin/bash
# tools/seed_rerun.sh [seed names...]  - re-run our checks against stored seeds (default: all), using a scratch worktree
WT=/tmp/wt/rerun
[ -d $WT ] || git -C /repo worktree add -q --detach $WT HEAD
git -C $WT checkout -q --detach $(git -C /repo rev-parse HEAD) 2>/dev/null
NAMES=${@:-$(ls /verif/seeded | grep -v -e ANNOT -e _benign -e _legit)}
for n in $NAMES; do
  D=/verif/seeded/$n
  [ -f $D/patch.diff ] || continue
  prop=$(python3 -c "import json;print(json.load(open('$D/meta.json'))['breaks_property'])")
  base=$(python3 -c "import json;print(json.load(open('$D/meta.json')).get('base_commit','HEAD'))")
  git -C $WT checkout -q -- . ; git -C $WT checkout -q --detach $base; git -C $WT apply $D/patch.diff || { echo "$n: patch does not apply"; continue; }
  mkdir -p /tmp/seedout/$n
  out=$(cd /verif && VERIF_REPO=$WT VERIF_OUT=/tmp/seedout/$n ./check $prop 2>&1); rc=$?
  kinds=$(echo "$out" | grep -E "^  monitor" | sed 's/ cases=.*//' | sort -u | tr '\n' ';' | cut -c1-600)
  echo "$n: exit $rc  $(echo "$out" | grep -c '^VIOLATION') signatures"
  python3 - "$D/meta.json" "$prop" "$rc" "$kinds" <<'PY'
import json,sys
p,prop,rc,kinds=sys.argv[1:5]
m=json.load(open(p)); m['check_results']=[{"check":prop,"exit":int(rc),"signatures":kinds}]; m['caught']=int(rc)==1
json.dump(m,open(p,'w'),indent=1)
PY
  git -C $WT checkout -q -- .
done
