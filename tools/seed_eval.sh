#!/bin/bash
# tools/seed_eval.sh <worktree> <seed-name> <property> [check ids to run; default: the property]
# Confirms a sub-agent's change (tests still pass, demo fails with / passes without), runs our checks
# against the worktree (VERIF_REPO), stores everything under /verif/seeded/<seed-name>/.
# The agent's MUTANT/patch.diff is the source of truth (worktree state is reset and the patch re-applied).
WT=$1; NAME=$2; PROP=$3; shift 3
IDS=${@:-$PROP}
D=/verif/seeded/$NAME
mkdir -p $D /tmp/seedout/$NAME
cd $WT || exit 2
cp MUTANT/patch.diff $D/patch.diff || exit 2
[ -s $D/patch.diff ] || { echo "no patch in $WT/MUTANT"; exit 2; }
cp MUTANT/demo.py $D/demo.py 2>/dev/null; cp MUTANT/notes.md $D/notes.md 2>/dev/null
git checkout -q -- eudoxia; git apply $D/patch.diff || { echo "patch does not apply"; exit 2; }
T=$(PYTHONPATH=$WT timeout 900 /venv/bin/python -m pytest -q -p no:cacheprovider 2>&1 | tail -1)
PYTHONPATH=$WT timeout 300 /venv/bin/python $D/demo.py > /tmp/seedout/$NAME/demo_with.txt 2>&1; DW=$?
git apply -R $D/patch.diff
PYTHONPATH=$WT timeout 300 /venv/bin/python $D/demo.py > /tmp/seedout/$NAME/demo_without.txt 2>&1; DO=$?
git apply $D/patch.diff
echo "tests: $T | demo with change: exit $DW | without: exit $DO"
RES=""
for id in $IDS; do
  out=$(cd /verif && VERIF_REPO=$WT VERIF_OUT=/tmp/seedout/$NAME ./check $id 2>&1); rc=$?
  echo "$out" | grep -E "^(VIOLATION|  monitor|HARNESS|\[C)" | cut -c1-220 | head -8
  kinds=$(echo "$out" | grep -E "^  monitor" | sed 's/ cases=.*//' | sort -u | tr '\n' ';' | cut -c1-600)
  RES="$RES{\"check\":\"$id\",\"exit\":$rc,\"signatures\":\"$kinds\"},"
done
cat > $D/meta.json <<M
{
 "seed": "$NAME",
 "breaks_property": "$PROP",
 "origin": "independent sub-agent given only the property text and a scratch worktree",
 "base_commit": "$(git -C $WT rev-parse --short HEAD)",
 "tests_with_change": "$T",
 "demo_exit_with_change": $DW,
 "demo_exit_without_change": $DO,
 "what_was_run": "PYTHONPATH=<worktree> pytest (unedited suite); demo.py with and without the patch; ./check <id> --tier quick with VERIF_REPO=<worktree with patch applied>",
 "check_results": [${RES%,}]
}
M
