#!/bin/sh
# tools/runall.sh [tier]  - run every check, print the summary lines; non-zero exit if any check is not silent
cd /verif
T=${1:-quick}
rc=0
for i in 01 02 03 04 05 06 07 08 09 10 11 12 13 14 15 16 17 18 19 20; do
  out=$(./check C$i --tier $T 2>&1); r=$?
  echo "$out" | grep -E "^(\[C|VIOLATION|HARNESS|KNOWN)" | cut -c1-200
  [ $r = 0 ] || { rc=1; echo "  -> C$i exit $r"; }
done
exit $rc
