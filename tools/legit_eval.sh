#!/bin/bash
# tools/legit_eval.sh <worktree> [ids...] : a change that keeps every property must keep every check silent
WT=$1; shift
IDS=${@:-C01 C02 C03 C04 C05 C06 C07 C08 C09 C10 C11 C12 C13 C14 C15 C16 C17 C18 C19 C20}
n=$(basename $WT)
mkdir -p /tmp/seedout/$n
echo "== $n: $(git -C $WT diff --stat -- eudoxia | tail -1)"
for id in $IDS; do
  out=$(cd /verif && VERIF_REPO=$WT VERIF_OUT=/tmp/seedout/$n ./check $id 2>&1); rc=$?
  if [ $rc != 0 ]; then echo "  $id exit $rc"; echo "$out" | grep -E "^(VIOLATION|  monitor|  detail|HARNESS|Traceback|  File|[A-Za-z]*Error)" | cut -c1-300 | head -16; fi
done
echo "== $n done"
