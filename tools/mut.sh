#!/bin/sh
# tools/mut.sh '<python-expr old>' ... : apply a textual replacement to a scratch clone and run checks against it
# usage: tools/mut.sh FILE 'OLD' 'NEW' ID [ID...]
F=$1; OLD=$2; NEW=$3; shift 3
[ -d /tmp/mut ] || git clone -q /repo /tmp/mut
git -C /tmp/mut checkout -q -- . ; git -C /tmp/mut pull -q 2>/dev/null
/venv/bin/python - "$F" "$OLD" "$NEW" <<'PY'
import sys
f,o,n=sys.argv[1:4]; p='/tmp/mut/'+f; s=open(p).read()
assert o in s, "pattern not found"
open(p,'w').write(s.replace(o,n,1))
PY
[ $? = 0 ] || exit 9
mkdir -p /tmp/mutout
for id in "$@"; do
  VERIF_OUT=/tmp/mutout VERIF_REPO=/tmp/mut /verif/check $id ${TIER:+--tier $TIER} | grep -E "^(VIOLATION|  monitor|\[C|HARNESS|Traceback|KNOWN)" | head -${LINES_MAX:-7}
done
git -C /tmp/mut checkout -q -- .
