#!/usr/bin/env python3
"""Regenerates MANIFEST.json from the table below (keeps it valid at all times)."""
import json, os, sys
HERE = os.path.dirname(os.path.dirname(os.path.abspath(__file__)))
sys.path.insert(0, HERE)
from tools.manifest_table import CHECKS, NOT_APPLICABLE, NOTES, HOOK_COMMITS

BASE = "cd /repo && /venv/bin/python -m pytest -ra -q -p no:cacheprovider --timeout=900 --continue-on-collection-errors"
m = {
    "version": 1,
    "setup_cmd": "cd /verif && /venv/bin/python -c \"import sys; sys.path.insert(0,'/verif'); import mc.boot as b; b.load(); print('eudoxia importable from', b.REPO)\"",
    "hooks": {
        "guard": "EUDOXIA_VERIF",
        "enable": "no source hooks: all instrumentation wraps public entry points of the imported package from outside (mc/world.py); the guard variable is set by the runner but nothing in /repo reads it",
        "baseline_off_cmd": BASE,
        "source_commits": HOOK_COMMITS,
        "add_only": True,
    },
    "engines": [
        {"name": "mc", "path": "/verif/mc", "serves_properties": [c["property_id"] for c in CHECKS],
         "kind_free_text": "hand-written stateless deviation-bounded explorer + exhaustive scenario-space enumeration over the real Python code, reference models in lock-step"}
    ],
    "checks": [],
    "notes": NOTES,
    "not_applicable": NOT_APPLICABLE,
}
for c in CHECKS:
    pid = c["property_id"]
    m["checks"].append({
        "property_id": pid,
        "quick_cmd": f"./check {pid} --tier quick",
        "thorough_cmd": f"./check {pid} --tier thorough",
        "evidence_file": f"/verif/evidence/{pid}.json",
        "replay_cmd_template": "./check --replay {path}",
        "engine": "mc",
        "level_claimed": {"category": "model_checking", "text": c["text"], "design_ref": c.get("design_ref", f"DESIGN.md section 4 {pid}")},
        "level_note": c["note"],
        "technique": c["technique"],
    })
with open(os.path.join(HERE, "MANIFEST.json"), "w") as f:
    json.dump(m, f, indent=1)
print("MANIFEST.json written:", len(CHECKS), "checks,", len(NOT_APPLICABLE), "not applicable")
