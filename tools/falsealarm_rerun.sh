#!/bin/bash
# tools/falsealarm_rerun.sh [areas...] - re-run our checks against the stored behaviour-preserving refactorings
# (seeded/_benign/<area>) and property-preserving behaviour changes (seeded/_legit/<area>): every check must stay silent.
# Patches are applied to a scratch worktree of /repo's HEAD (3-way if the base moved); only the checks an area can
# influence are run (map below; ALL=1 runs all twenty).
WT=/tmp/wt/fa
[ -d $WT ] || git -C /repo worktree add -q --detach $WT HEAD
git -C $WT checkout -q -- . ; git -C $WT checkout -q --detach $(git -C /repo rev-parse HEAD)
declare -A MAP=(
 [container]="C02 C03 C04 C05 C09 C10 C11" [executor]="C01 C02 C03 C04 C08 C09 C10 C11" [exec2]="C01 C02 C03 C04 C08 C09 C10 C11"
 [naive_overbook]="C08 C17 C18" [priority]="C08 C12" [prioritypool]="C08 C12 C16" [rest]="C19" [rest2]="C19"
 [simulator]="C06 C07 C08" [stats]="C06 C07 C08" [status]="C01 C02 C09" [tools]="C20" [workload]="C07 C13 C15" [gen]="C07 C15"
 [naming]="C06 C08 C09 C14 C19" [order]="C01 C02 C03 C09 C10" [sizing]="C08 C12 C16 C17 C18" [tracefmt]="C13 C14 C20"
 [restproto2]="C19 C07" [suspend2]="C02 C03 C04 C09 C10 C12" [priority2]="C08 C12" [prioritypool2]="C08 C12 C16" [oom2]="C04 C05 C11" [lifecycle2]="C01 C02 C19"
 [generator2]="C07 C08 C13 C15" [simloop2]="C06 C07 C08" [structs3]="C02 C03 C04 C08 C09 C10 C11 C12 C16 C17 C18" [perf3]="C01 C03 C07 C08 C15 C19" [limits3]="C03 C08 C13 C14 C20" [obs3]="C06 C08 C19")
ALLIDS="C01 C02 C03 C04 C05 C06 C07 C08 C09 C10 C11 C12 C13 C14 C15 C16 C17 C18 C19 C20"
for d in /verif/seeded/_benign/* /verif/seeded/_legit/*; do
  a=$(basename $d)
  if [ $# -gt 0 ] && ! echo " $* " | grep -q " $a "; then continue; fi
  git -C $WT checkout -q -- . ; git -C $WT clean -qfd
  if ! git -C $WT apply $d/patch.diff 2>/dev/null; then
    git -C $WT apply --3way $d/patch.diff >/dev/null 2>&1 || { echo "$a: patch does not apply at HEAD (skipped)"; git -C $WT checkout -q -- . ; git -C $WT reset -q --hard; continue; }
  fi
  T=$(cd $WT && PYTHONPATH=$WT timeout 900 /venv/bin/python -m pytest -q -p no:cacheprovider 2>&1 | tail -1)
  ids=${MAP[$a]:-$ALLIDS}; [ -n "$ALL" ] && ids=$ALLIDS
  bad=""
  for id in $ids; do
    out=$(cd /verif && VERIF_REPO=$WT VERIF_OUT=/tmp/seedout/fa-$a ./check $id 2>&1); rc=$?
    if [ $rc != 0 ]; then bad="$bad $id"; echo "$out" | grep -E "^(VIOLATION|  monitor|HARNESS|Traceback)" | cut -c1-250 | head -8; fi
  done
  echo "$a: tests: $T | checks run: $ids | alarms:${bad:- none}"
  git -C $WT reset -q --hard
done
