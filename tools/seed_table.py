#!/usr/bin/env python3
"""Merge seeded/ANNOTATIONS.json into every seeded/<name>/meta.json and print the DESIGN 9.5 table."""
import json, glob, os
ann = json.load(open('/verif/seeded/ANNOTATIONS.json'))
rows = []
for d in sorted(x for x in glob.glob('/verif/seeded/*/') if '_benign' not in x and '_legit' not in x):
    name = os.path.basename(d.rstrip('/'))
    m = json.load(open(d + 'meta.json'))
    notes = open(d + 'notes.md').read() if os.path.exists(d + 'notes.md') else ''
    m['needs_to_manifest'] = notes.strip()[:1500]
    a = ann.get(name, {})
    m['first_evaluation'] = a.get('first_evaluation', 'caught by the check as it was when the seed came in')
    if 'strengthening' in a:
        m['strengthening'] = a['strengthening']
    m['caught'] = any(r['exit'] == 1 for r in m['check_results'])
    json.dump(m, open(d + 'meta.json', 'w'), indent=1)
    sigs = '; '.join(sorted({s.strip().replace('monitor=', '').replace(' site=', ' ').strip() for r in m['check_results'] for s in r['signatures'].split(';') if s.strip()}))[:160]
    first = 'at once' if m['first_evaluation'].startswith('caught by the check as it was') else 'after strengthening'
    if not m['caught']:
        first = '**NOT caught**'
    rows.append(f"| `{name}` | {m['breaks_property']} | {first} | {sigs} |")
print("\n".join(rows))
